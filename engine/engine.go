package gov

import (
	"sync"
	"fmt"
	"go/token"
	"go/types"
	"os"
	"path/filepath"
	"sort"
	"strings"

	"golang.org/x/tools/go/packages"
	"golang.org/x/tools/go/ssa"
	"golang.org/x/tools/go/ssa/ssautil"
)

const ModulePath = "github.com/modelcontextprotocol/go-sdk"

// Engine holds the loaded program and the contract database.
type Engine struct {
	Prog      *ssa.Program
	Pkgs      []*packages.Package
	SSAPkgs   []*ssa.Package
	DB        *SpecDB
	Fset      *token.FileSet
	FnByName  map[string]*ssa.Function
	TypePkgs  map[string]*types.Package // by path and by name
	mutableGl map[*ssa.Global]bool
	RepoDir   string
	SpecDir   string
	Overlay   map[string][]byte
	LoadErrs  []string
	lockSecMu sync.Mutex
	lockSecs  map[string]map[*ssa.Function]bool // monitor name -> functions that lock its mutex
	holderMemo map[*ssa.Function]bool
}

// Load loads the given package patterns of /repo (working tree, tag verif) and all contracts.
func Load(repoDir, specDir string, patterns []string, overlay map[string][]byte) (*Engine, error) {
	cfg := &packages.Config{
		Mode:       packages.LoadAllSyntax,
		Dir:        repoDir,
		BuildFlags: []string{"-tags=verif"},
		Overlay:    overlay,
		Env:        append(os.Environ(), "GOFLAGS=-mod=readonly", "GOWORK=off"),
	}
	pkgs, err := packages.Load(cfg, patterns...)
	if err != nil {
		return nil, err
	}
	e := &Engine{Pkgs: pkgs, DB: NewSpecDB(), FnByName: map[string]*ssa.Function{}, TypePkgs: map[string]*types.Package{},
		mutableGl: map[*ssa.Global]bool{}, RepoDir: repoDir, SpecDir: specDir, Overlay: overlay}
	packages.Visit(pkgs, nil, func(p *packages.Package) {
		for _, er := range p.Errors {
			if strings.HasPrefix(p.PkgPath, ModulePath) {
				e.LoadErrs = append(e.LoadErrs, er.Error())
			}
		}
		if p.Types != nil {
			e.TypePkgs[p.PkgPath] = p.Types
			if _, ok := e.TypePkgs["name:"+p.Types.Name()]; !ok || strings.HasPrefix(p.PkgPath, ModulePath) || !strings.Contains(p.PkgPath, "/") {
				// prefer module packages and top-level std packages for short names
				if old, ok := e.TypePkgs["name:"+p.Types.Name()]; !ok || !strings.HasPrefix(old.Path(), ModulePath) {
					e.TypePkgs["name:"+p.Types.Name()] = p.Types
				}
			}
		}
	})
	if len(e.LoadErrs) > 0 {
		return e, fmt.Errorf("package errors: %s", strings.Join(e.LoadErrs, "; "))
	}
	prog, spkgs := ssautil.AllPackages(pkgs, ssa.NaiveForm|ssa.GlobalDebug)
	prog.Build()
	e.Prog, e.SSAPkgs = prog, spkgs
	if len(pkgs) > 0 {
		e.Fset = pkgs[0].Fset
	}
	// Index every declared function and method (generic ones included) and their function literals, deterministically.
	var addFn func(fn *ssa.Function)
	addFn = func(fn *ssa.Function) {
		if fn == nil {
			return
		}
		if old, ok := e.FnByName[fn.String()]; ok && old == fn {
			return
		}
		if old, ok := e.FnByName[fn.String()]; !ok || (len(old.Blocks) == 0 && len(fn.Blocks) > 0) {
			e.FnByName[fn.String()] = fn
		}
		for _, af := range fn.AnonFuncs {
			addFn(af)
		}
	}
	for _, sp := range prog.AllPackages() {
		names := make([]string, 0, len(sp.Members))
		for n := range sp.Members {
			names = append(names, n)
		}
		sort.Strings(names)
		for _, n := range names {
			switch m := sp.Members[n].(type) {
			case *ssa.Function:
				addFn(m)
			case *ssa.Type:
				if named, ok := m.Type().(*types.Named); ok {
					for i := 0; i < named.NumMethods(); i++ {
						addFn(prog.FuncValue(named.Method(i)))
					}
				}
			}
		}
	}
	for fn := range ssautil.AllFunctions(prog) {
		if _, ok := e.FnByName[fn.String()]; !ok {
			e.FnByName[fn.String()] = fn
		}
	}
	// package-level variables assigned outside init are mutable
	for fn := range ssautil.AllFunctions(prog) {
		if fn.Pkg == nil || !strings.HasPrefix(fn.Pkg.Pkg.Path(), ModulePath) {
			continue
		}
		isInit := fn.Name() == "init" || strings.HasPrefix(fn.Name(), "init#")
		for _, b := range fn.Blocks {
			for _, in := range b.Instrs {
				if st, ok := in.(*ssa.Store); ok {
					if g, ok := st.Addr.(*ssa.Global); ok && !isInit {
						e.mutableGl[g] = true
					}
				}
			}
		}
	}
	// contracts: stdlib specs + one contracts_verif.go per module package
	if specDir != "" {
		files, _ := filepath.Glob(filepath.Join(specDir, "*.spec"))
		sort.Strings(files)
		for _, f := range files {
			if err := e.DB.LoadSpecFile(f, ""); err != nil {
				return e, err
			}
		}
	}
	var loadErr error
	packages.Visit(pkgs, nil, func(p *packages.Package) {
		if !strings.HasPrefix(p.PkgPath, ModulePath) || loadErr != nil {
			return
		}
		for _, f := range p.GoFiles {
			if filepath.Base(f) == "contracts_verif.go" {
				if err := e.DB.LoadSpecFile(f, p.PkgPath); err != nil {
					loadErr = err
				}
			}
		}
	})
	return e, loadErr
}

func (e *Engine) InModule(p *types.Package) bool {
	return p != nil && strings.HasPrefix(p.Path(), ModulePath)
}

// FindFunc resolves a contract key to the SSA function, if it has one.
func (e *Engine) FindFunc(key string) *ssa.Function {
	return e.FnByName[key]
}

// ContractFor returns the contract of a callee (by its own name, or its generic origin's).
func (e *Engine) ContractFor(fn *ssa.Function) *Contract {
	if fn == nil {
		return nil
	}
	if c, ok := e.DB.Contracts[fn.String()]; ok {
		return c
	}
	if o := fn.Origin(); o != nil && o != fn {
		if c, ok := e.DB.Contracts[o.String()]; ok {
			return c
		}
	}
	return nil
}

// ResolveType parses a type written in a contract.
func (e *Engine) ResolveType(s string, pkgPath string) (types.Type, error) {
	return e.ResolveTypeWith(s, pkgPath, nil)
}

// ResolveTypeWith also resolves $X type variables of generic specification functions.
func (e *Engine) ResolveTypeWith(s string, pkgPath string, tv map[string]types.Type) (types.Type, error) {
	s = strings.TrimSpace(s)
	if strings.HasPrefix(s, "$") {
		if t, ok := tv[s]; ok {
			return t, nil
		}
		return nil, fmt.Errorf("unbound type variable %s", s)
	}
	switch {
	case strings.HasPrefix(s, "*"):
		t, err := e.ResolveTypeWith(s[1:], pkgPath, tv)
		if err != nil {
			return nil, err
		}
		return types.NewPointer(t), nil
	case strings.HasPrefix(s, "[]"):
		t, err := e.ResolveTypeWith(s[2:], pkgPath, tv)
		if err != nil {
			return nil, err
		}
		return types.NewSlice(t), nil
	case strings.HasPrefix(s, "chan "):
		el := strings.TrimSpace(s[5:])
		if el == "struct{}" {
			return types.NewChan(types.SendRecv, types.NewStruct(nil, nil)), nil
		}
		t, err := e.ResolveTypeWith(el, pkgPath, tv)
		if err != nil {
			return nil, err
		}
		return types.NewChan(types.SendRecv, t), nil
	case strings.HasPrefix(s, "map["):
		depth := 0
		for i := 3; i < len(s); i++ {
			if s[i] == '[' {
				depth++
			}
			if s[i] == ']' {
				depth--
				if depth == 0 {
					k, err := e.ResolveTypeWith(s[4:i], pkgPath, tv)
					if err != nil {
						return nil, err
					}
					v, err := e.ResolveTypeWith(s[i+1:], pkgPath, tv)
					if err != nil {
						return nil, err
					}
					return types.NewMap(k, v), nil
				}
			}
		}
		return nil, fmt.Errorf("bad map type %q", s)
	}
	if s == "struct{}" {
		return types.NewStruct(nil, nil), nil
	}
	switch s {
	case "int", "int64", "int32", "bool", "string", "byte", "uint8", "uint64", "float64", "error", "any", "uint", "int8", "int16", "uint16", "uint32", "rune":
		return types.Universe.Lookup(s).Type(), nil
	}
	if i := strings.LastIndex(s, "."); i >= 0 {
		pn, tn := s[:i], s[i+1:]
		p := e.TypePkgs[pn]
		if p == nil {
			p = e.TypePkgs["name:"+pn]
		}
		if p == nil {
			return nil, fmt.Errorf("unknown package %q in type %q", pn, s)
		}
		o := p.Scope().Lookup(tn)
		if o == nil {
			// several packages share a name (encoding/json, internal/json): prefer one the contract's package imports
			if cur := e.TypePkgs[pkgPath]; cur != nil {
				for _, imp := range cur.Imports() {
					if imp.Name() == pn {
						if o2 := imp.Scope().Lookup(tn); o2 != nil {
							return o2.Type(), nil
						}
					}
				}
			}
			for _, k := range sortedKeys(e.TypePkgs) {
				if q := e.TypePkgs[k]; q.Name() == pn {
					if o2 := q.Scope().Lookup(tn); o2 != nil {
						return o2.Type(), nil
					}
				}
			}
			return nil, fmt.Errorf("unknown type %q", s)
		}
		return o.Type(), nil
	}
	if p := e.TypePkgs[pkgPath]; p != nil {
		if o := p.Scope().Lookup(s); o != nil {
			return o.Type(), nil
		}
	}
	return nil, fmt.Errorf("unknown type %q (package %s)", s, pkgPath)
}

// unifyTypeVars binds $X variables in a declared parameter type against an actual type.
func unifyTypeVars(decl string, actual types.Type, tv map[string]types.Type) {
	decl = strings.TrimSpace(decl)
	if actual == nil {
		return
	}
	switch {
	case strings.HasPrefix(decl, "$"):
		if _, ok := tv[decl]; !ok {
			tv[decl] = actual
		}
	case strings.HasPrefix(decl, "[]"):
		if st, ok := types.Unalias(actual).Underlying().(*types.Slice); ok {
			unifyTypeVars(decl[2:], st.Elem(), tv)
		}
	case strings.HasPrefix(decl, "*"):
		if pt, ok := types.Unalias(actual).Underlying().(*types.Pointer); ok {
			unifyTypeVars(decl[1:], pt.Elem(), tv)
		}
	case strings.HasPrefix(decl, "map["):
		if mt, ok := types.Unalias(actual).Underlying().(*types.Map); ok {
			depth := 0
			for i := 3; i < len(decl); i++ {
				if decl[i] == '[' {
					depth++
				}
				if decl[i] == ']' {
					depth--
					if depth == 0 {
						unifyTypeVars(decl[4:i], mt.Key(), tv)
						unifyTypeVars(decl[i+1:], mt.Elem(), tv)
						break
					}
				}
			}
		}
	}
}
