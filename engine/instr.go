package gov

import (
	"math/big"
	"fmt"
	"go/constant"
	"go/token"
	"go/types"
	"strings"

	"golang.org/x/tools/go/ssa"
)

// val returns the engine value of an SSA value.
func (fr *Frame) val(v ssa.Value) Val {
	switch v := v.(type) {
	case *ssa.Const:
		return TV(fr.constTerm(v))
	case *ssa.Global:
		return Val{Loc: &Loc{Kind: LGlobal, Glob: v, Type: v.Type().(*types.Pointer).Elem(), Const: !fr.R.Eng.mutableGl[v] && !fr.R.inInit}}
	case *ssa.Function:
		name := "fn." + sanitize(fr.R.fnShort(v))
		t := fr.R.Sc.Declare(name, SInt)
		fr.R.funcRefs[name] = v
		return TV(t)
	case *ssa.Builtin:
		fr.R.unsupported("builtin %s used as value", v.Name())
	}
	if x, ok := fr.env[v]; ok {
		return x
	}
	fr.R.unsupported("value %s (%T) has no binding in %s", v.Name(), v, fr.Fn)
	return Val{}
}

func (fr *Frame) constTerm(c *ssa.Const) Term {
	t := c.Type()
	if c.Value == nil {
		return fr.R.TM.Zero(t)
	}
	switch c.Value.Kind() {
	case constant.Bool:
		return BoolLit(constant.BoolVal(c.Value))
	case constant.String:
		return StrLit(constant.StringVal(c.Value))
	case constant.Int:
		if b, ok := types.Unalias(t).Underlying().(*types.Basic); ok && b.Info()&types.IsFloat != 0 {
			return fr.floatConst(c.Value.ExactString())
		}
		return BigLit(c.Value.ExactString())
	case constant.Float:
		if b, ok := types.Unalias(t).Underlying().(*types.Basic); ok && b.Info()&types.IsInteger != 0 {
			if i := constant.ToInt(c.Value); i.Kind() == constant.Int {
				return BigLit(i.ExactString())
			}
		}
		return fr.floatConst(c.Value.ExactString())
	}
	fr.R.unsupported("constant %s", c)
	return Term{}
}

func (fr *Frame) floatConst(text string) Term {
	fr.useF64()
	name := "f64." + sanitize(text)
	fr.R.Sc.Preamble("f64:"+name, fmt.Sprintf("(declare-fun %s () F64)", name))
	// a constant that is an integer of magnitude at most 2^53 belongs to the exact-integer fragment
	if r, ok := new(big.Rat).SetString(text); ok && r.IsInt() {
		lim := new(big.Int).Lsh(big.NewInt(1), 53)
		if n := r.Num(); new(big.Int).Abs(n).Cmp(lim) <= 0 {
			lit := n.String()
			if n.Sign() < 0 {
				lit = "(- " + new(big.Int).Abs(n).String() + ")"
			}
			fr.R.Sc.Preamble("f64val:"+name, fmt.Sprintf("(assert (= %s (f64.of.int %s)))", name, lit))
		}
	}
	return T(name, SF64)
}

func (fr *Frame) useF64() {
	fr.R.Sc.UseF64()
	fr.R.Trusted["float64 is uninterpreted except on integers of magnitude <= 2^53 (comparison, abs, neg, trunc, finiteness, conversion back to int64: IEEE-754 facts proved by the raw lemmas specs/lemmas/C12-f64-*.smt2)"] = true
}

// termOf returns the SMT term of a value (pointers become reference terms).
func (fr *Frame) termOf(v Val) Term {
	if v.T.S != "" {
		return v.T
	}
	if v.Loc != nil {
		return fr.locTerm(v.Loc)
	}
	if v.Tuple != nil {
		fr.R.unsupported("tuple used as a term")
	}
	fr.R.unsupported("empty value")
	return Term{}
}

// locTerm gives an address a reference term. Addresses of interior locations get an opaque term that the
// engine can map back (addrTable) while the value stays inside the function being executed.
func (fr *Frame) locTerm(l *Loc) Term {
	switch l.Kind {
	case LObj, LBox:
		if len(l.Path) == 0 {
			return l.Ref
		}
	case LReg:
		fr.R.unsupported("address of register local %s escapes", l.Reg.Comment)
	}
	var t Term
	switch l.Kind {
	case LObj:
		name := "addr." + sanitize(fieldPathName(fr.R.TM, l))
		fr.R.Sc.DeclareFun(name, []Sort{SInt}, SInt)
		t = app(SInt, name, l.Ref)
	case LElem:
		name := "addr.elem"
		if len(l.Path) > 0 {
			name += "." + sanitize(fieldPathName(fr.R.TM, l))
		}
		fr.R.Sc.DeclareFun(name, []Sort{SInt, SInt}, SInt)
		t = app(SInt, name, l.Ref, l.Idx)
	case LGlobal:
		name := "addr.G." + sanitize(l.Glob.Pkg.Pkg.Name()+"."+l.Glob.Name())
		if len(l.Path) > 0 {
			name += "." + sanitize(fieldPathName(fr.R.TM, l))
		}
		t = fr.R.Sc.Declare(name, SInt)
	default:
		fr.R.unsupported("address kind %d has no term", l.Kind)
	}
	fr.R.addrTable[t.S] = l
	return t
}

func fieldPathName(tm *TypeMap, l *Loc) string {
	t := l.Type
	parts := []string{typeKey(t)}
	for _, i := range l.Path {
		st := types.Unalias(t).Underlying().(*types.Struct)
		parts = append(parts, st.Field(i).Name())
		t = st.Field(i).Type()
	}
	return strings.Join(parts, ".")
}

// locOf interprets a pointer value as an address; elem is the static pointee type.
func (fr *Frame) locOf(v Val, elem types.Type) *Loc {
	if v.Loc != nil {
		return v.Loc
	}
	if l, ok := fr.R.addrTable[v.T.S]; ok {
		return l
	}
	if _, isStruct := types.Unalias(elem).Underlying().(*types.Struct); isStruct {
		if n, isNamed := types.Unalias(elem).(*types.Named); !isNamed || fr.R.TM.inModule(n) || true {
			return &Loc{Kind: LObj, Ref: v.T, Type: elem}
		}
	}
	if _, isArr := types.Unalias(elem).Underlying().(*types.Array); isArr {
		return &Loc{Kind: LBox, Ref: v.T, Type: elem}
	}
	return &Loc{Kind: LBox, Ref: v.T, Type: elem}
}

// pathType returns the type at the end of the field path of l.
func pathType(l *Loc) types.Type {
	t := l.Type
	for _, i := range l.Path {
		t = types.Unalias(t).Underlying().(*types.Struct).Field(i).Type()
	}
	return t
}

func (fr *Frame) globalComp(g *ssa.Global) string {
	return "G." + g.Pkg.Pkg.Name() + "." + g.Name()
}

// isOpaqueStruct: by-value struct types declared outside the module are held as opaque values.
func (fr *Frame) isOpaqueStruct(t types.Type) bool {
	t = types.Unalias(t)
	if _, ok := t.Underlying().(*types.Struct); !ok {
		return false
	}
	n, ok := t.(*types.Named)
	return ok && !fr.R.TM.inModule(n)
}

// load reads the value stored at l.
func (fr *Frame) load(l *Loc) Term {
	tm := fr.R.TM
	var base Term
	var baseType types.Type
	path := l.Path
	switch l.Kind {
	case LReg:
		if t, ok := fr.st.regs[l.Reg]; ok {
			return t
		}
		return tm.Zero(l.Type)
	case LObj:
		if len(path) == 0 {
			return fr.loadStruct(l.Ref, l.Type)
		}
		if fr.isOpaqueStruct(l.Type) && false {
			fr.R.unsupported("field of opaque struct")
		}
		st := types.Unalias(l.Type).Underlying().(*types.Struct)
		f := st.Field(path[0])
		fs := tm.SortOf(f.Type())
		fr.R.Heap.NoteType(fieldComp(l.Type, f.Name()), f.Type())
		arr := fr.R.Heap.Get(fr.st, fieldComp(l.Type, f.Name()), ArraySort(SInt, fs))
		base = Select(arr, l.Ref, fs)
		baseType = f.Type()
		path = path[1:]
	case LBox:
		s := tm.SortOf(l.Type)
		if cv, ok := fr.R.constCells[l.Ref.S]; ok && len(l.Path) == 0 {
			return cv
		}
		if fr.st.vol[l.Ref.S] {
			base = fr.freshTyped("vol", l.Type)
		} else {
			fr.R.Heap.NoteType(boxComp(l.Type), l.Type)
			arr := fr.R.Heap.Get(fr.st, boxComp(l.Type), ArraySort(SInt, s))
			base = Select(arr, l.Ref, s)
		}
		baseType = l.Type
	case LElem:
		s := tm.SortOf(l.Type)
		fr.R.Heap.NoteType(elemsComp(l.Type), l.Type)
		arr := fr.R.Heap.Get(fr.st, elemsComp(l.Type), ArraySort(SInt, ArraySort(SInt, s)))
		base = Select(Select(arr, l.Ref, ArraySort(SInt, s)), l.Idx, s)
		baseType = l.Type
	case LGlobal:
		s := tm.SortOf(l.Type)
		if l.Const {
			base = fr.R.Sc.Declare(sanitize(fr.globalComp(l.Glob)), s)
		} else {
			base = fr.R.Heap.Get(fr.st, fr.globalComp(l.Glob), s)
		}
		baseType = l.Type
	}
	t := base
	ty := baseType
	for _, i := range path {
		si := tm.Struct(ty)
		t = app(si.Fields[i].Sort, si.Fields[i].Sel, t)
		ty = si.Fields[i].Type
	}
	t = fr.define("ld", t)
	fr.typeFacts(t, ty)
	return t
}

func (fr *Frame) loadStruct(ref Term, t types.Type) Term {
	tm := fr.R.TM
	if fr.isOpaqueStruct(t) {
		s := tm.SortOf(t)
		arr := fr.R.Heap.Get(fr.st, boxComp(t), ArraySort(SInt, s))
		return Select(arr, ref, s)
	}
	si := tm.Struct(t)
	if len(si.Fields) == 0 {
		return tm.Zero(t)
	}
	args := make([]Term, len(si.Fields))
	for i, f := range si.Fields {
		fr.R.Heap.NoteType(fieldComp(t, f.Name), f.Type)
		arr := fr.R.Heap.Get(fr.st, fieldComp(t, f.Name), ArraySort(SInt, f.Sort))
		args[i] = Select(arr, ref, f.Sort)
	}
	return fr.define("sv", app(Sort(si.Name), si.Ctor, args...))
}

func (fr *Frame) storeStruct(ref Term, t types.Type, v Term) {
	tm := fr.R.TM
	if fr.isOpaqueStruct(t) {
		s := tm.SortOf(t)
		name := boxComp(t)
		arr := fr.R.Heap.Get(fr.st, name, ArraySort(SInt, s))
		fr.R.Heap.Set(fr.st, name, fr.define("h", Store(arr, ref, v)))
		return
	}
	si := tm.Struct(t)
	for _, f := range si.Fields {
		name := fieldComp(t, f.Name)
		arr := fr.R.Heap.Get(fr.st, name, ArraySort(SInt, f.Sort))
		fr.R.Heap.Set(fr.st, name, fr.define("h", Store(arr, ref, app(f.Sort, f.Sel, v))))
	}
}

// updPath rebuilds a struct value with the component at path replaced.
func (fr *Frame) updPath(cur Term, ty types.Type, path []int, v Term) Term {
	if len(path) == 0 {
		return v
	}
	si := fr.R.TM.Struct(ty)
	args := make([]Term, len(si.Fields))
	for i, f := range si.Fields {
		sel := app(f.Sort, f.Sel, cur)
		if i == path[0] {
			args[i] = fr.updPath(sel, f.Type, path[1:], v)
		} else {
			args[i] = sel
		}
	}
	return app(Sort(si.Name), si.Ctor, args...)
}

// store writes v at l.
func (fr *Frame) store(l *Loc, v Term) {
	tm := fr.R.TM
	h := fr.R.Heap
	switch l.Kind {
	case LReg:
		fr.st.regs[l.Reg] = v
	case LObj:
		if len(l.Path) == 0 {
			fr.storeStruct(l.Ref, l.Type, v)
			return
		}
		st := types.Unalias(l.Type).Underlying().(*types.Struct)
		f := st.Field(l.Path[0])
		fs := tm.SortOf(f.Type())
		name := fieldComp(l.Type, f.Name())
		arr := h.Get(fr.st, name, ArraySort(SInt, fs))
		nv := v
		if len(l.Path) > 1 {
			nv = fr.updPath(Select(arr, l.Ref, fs), f.Type(), l.Path[1:], v)
		}
		h.Set(fr.st, name, fr.define("h", Store(arr, l.Ref, nv)))
	case LBox:
		s := tm.SortOf(l.Type)
		name := boxComp(l.Type)
		arr := h.Get(fr.st, name, ArraySort(SInt, s))
		nv := v
		if len(l.Path) > 0 {
			nv = fr.updPath(Select(arr, l.Ref, s), l.Type, l.Path, v)
		}
		h.Set(fr.st, name, fr.define("h", Store(arr, l.Ref, nv)))
	case LElem:
		s := tm.SortOf(l.Type)
		name := elemsComp(l.Type)
		arr := h.Get(fr.st, name, ArraySort(SInt, ArraySort(SInt, s)))
		row := Select(arr, l.Ref, ArraySort(SInt, s))
		nv := v
		if len(l.Path) > 0 {
			nv = fr.updPath(Select(row, l.Idx, s), l.Type, l.Path, v)
		}
		if s == SSlice {
			// sums of element lengths over windows of this row change by the difference at this one position
			oldRow := fr.define("row", row)
			newRow := fr.define("row", Store(row, l.Idx, nv))
			fr.sumPointUpdate(oldRow, newRow, l.Idx, nv)
			h.Set(fr.st, name, fr.define("h", Store(arr, l.Ref, newRow)))
			return
		}
		h.Set(fr.st, name, fr.define("h", Store(arr, l.Ref, Store(row, l.Idx, nv))))
	case LGlobal:
		s := tm.SortOf(l.Type)
		name := fr.globalComp(l.Glob)
		nv := v
		if len(l.Path) > 0 {
			nv = fr.updPath(h.Get(fr.st, name, s), l.Type, l.Path, v)
		}
		if l.Const {
			// stores to package variables happen only in init; inside init treat as ordinary heap
			l.Const = false
		}
		h.Set(fr.st, name, nv)
	}
}

// alloc returns a fresh reference.
func (fr *Frame) alloc(prefix string) Term {
	r := fr.define(prefix, Add(fr.st.top, IntLit(1)))
	fr.st.top = r
	return r
}

func isRegisterAlloc(a *ssa.Alloc) bool {
	elem := a.Type().(*types.Pointer).Elem()
	switch types.Unalias(elem).Underlying().(type) {
	case *types.Struct, *types.Array:
		return false
	}
	if a.Heap {
		// 'new' allocations: may still be registers if they do not escape
	}
	for _, ref := range *a.Referrers() {
		switch r := ref.(type) {
		case *ssa.Store:
			if r.Addr != a || r.Val == a {
				return false
			}
		case *ssa.UnOp:
			if r.Op != token.MUL {
				return false
			}
		case *ssa.DebugRef:
		default:
			return false
		}
	}
	return true
}

func (fr *Frame) execInstr(in ssa.Instruction) {
	tm := fr.R.TM
	switch in := in.(type) {
	case *ssa.DebugRef:
	case *ssa.Alloc:
		elem := in.Type().(*types.Pointer).Elem()
		if isRegisterAlloc(in) {
			fr.st.regs[in] = tm.Zero(elem)
			fr.env[in] = Val{Loc: &Loc{Kind: LReg, Reg: in, Type: elem}}
			return
		}
		ref := fr.alloc("new." + in.Comment)
		switch u := types.Unalias(elem).Underlying().(type) {
		case *types.Struct:
			l := &Loc{Kind: LObj, Ref: ref, Type: elem}
			fr.storeStruct(ref, elem, tm.Zero(elem))
			fr.env[in] = Val{T: ref, Loc: l}
			// a struct this frame allocated stays its own until its address is handed to other code
			if !fr.isOpaqueStruct(elem) {
				if fr.ownBoxes == nil {
					fr.ownBoxes = map[string]*Loc{}
				}
				fr.ownBoxes[ref.S] = l
			}
		case *types.Array:
			// backing array: a row of the element store
			es := tm.SortOf(u.Elem())
			name := elemsComp(u.Elem())
			arr := fr.R.Heap.Get(fr.st, name, ArraySort(SInt, ArraySort(SInt, es)))
			zero := T(fmt.Sprintf("((as const %s) %s)", ArraySort(SInt, es), tm.Zero(u.Elem()).S), ArraySort(SInt, es))
			fr.R.Heap.Set(fr.st, name, fr.define("h", Store(arr, ref, zero)))
			fr.env[in] = Val{T: ref, Loc: &Loc{Kind: LBox, Ref: ref, Type: elem}}
		default:
			l := &Loc{Kind: LBox, Ref: ref, Type: elem}
			fr.env[in] = Val{T: ref, Loc: l}
			fr.store(l, tm.Zero(elem))
			if fr.ownBoxes == nil {
				fr.ownBoxes = map[string]*Loc{}
			}
			fr.ownBoxes[ref.S] = l
		}
	case *ssa.Store:
		addr := fr.val(in.Addr)
		elem := in.Addr.Type().Underlying().(*types.Pointer).Elem()
		l := fr.locOf(addr, elem)
		fr.nilCheck(l, in.Pos())
		fr.checkDiscipline(l, in.Pos(), true)
		v := fr.val(in.Val)
		if v.Loc != nil && v.T.S == "" {
			// storing an address: give it a term
			v.T = fr.termOf(v)
		}
		if l.Kind != LReg {
			if l.Kind == LBox && fr.isOwnBox(l.Ref.S) {
				// stored into a local variable cell that only this code can reach (a variable that a function literal
				// captures lives in such a cell): the value is as private as the cell; it escapes when the cell does
				fr.R.boxHolds[l.Ref.S] = append(fr.R.boxHolds[l.Ref.S], v)
			} else {
				fr.markEscaped(v)
			}
		}
		fr.store(l, fr.termOf(v))
		if g, ok := in.Addr.(*ssa.Global); ok && fr.top && fr.R.inInit {
			fr.checkGlobalInvAtStore(g, in.Pos())
		}
		if l.Kind == LReg && v.Loc != nil {
			// remember the address held by a local so a later load gives the same Loc back
			fr.R.addrTable[fr.termOf(v).S] = v.Loc
		}
	case *ssa.UnOp:
		fr.execUnOp(in)
	case *ssa.BinOp:
		x, y := fr.termOf(fr.val(in.X)), fr.termOf(fr.val(in.Y))
		fr.env[in] = TV(fr.define(in.Name(), fr.binop(in.Op, x, y, in.X.Type(), in.Y.Type(), in.Type(), in.Pos())))
	case *ssa.FieldAddr:
		x := fr.val(in.X)
		pt := in.X.Type().Underlying().(*types.Pointer).Elem()
		base := fr.locOf(x, pt)
		if base.Kind == LBox && len(base.Path) == 0 {
			// pointer to struct held as a box (opaque external struct): switch to object view
			base = &Loc{Kind: LObj, Ref: base.Ref, Type: pt}
		}
		nl := *base
		nl.Path = append(append([]int{}, base.Path...), in.Field)
		fr.nilCheck(base, in.Pos())
		fr.env[in] = Val{Loc: &nl}
	case *ssa.Field:
		x := fr.termOf(fr.val(in.X))
		if fr.isOpaqueStruct(in.X.Type()) {
			st := types.Unalias(in.X.Type()).Underlying().(*types.Struct)
			name := "fld." + sanitize(typeKey(in.X.Type())+"."+st.Field(in.Field).Name())
			fs := tm.SortOf(st.Field(in.Field).Type())
			fr.R.Sc.DeclareFun(name, []Sort{x.Sort}, fs)
			fr.env[in] = TV(app(fs, name, x))
			return
		}
		si := tm.Struct(in.X.Type())
		f := si.Fields[in.Field]
		fr.env[in] = TV(fr.define(in.Name(), app(f.Sort, f.Sel, x)))
	case *ssa.IndexAddr:
		fr.execIndexAddr(in)
	case *ssa.Index:
		x := fr.termOf(fr.val(in.X))
		i := fr.termOf(fr.val(in.Index))
		switch u := types.Unalias(in.X.Type()).Underlying().(type) {
		case *types.Basic: // string
			fr.boundsCheck(i, app(SInt, "str.len", x), in.Pos())
			fr.env[in] = TV(fr.define(in.Name(), app(SInt, "str.to_code", app(SString, "str.at", x, i))))
		case *types.Array:
			fr.boundsCheck(i, IntLit(u.Len()), in.Pos())
			fr.env[in] = TV(fr.define(in.Name(), Select(x, i, tm.SortOf(u.Elem()))))
		default:
			fr.R.unsupported("index of %s", in.X.Type())
		}
	case *ssa.Lookup:
		fr.execLookup(in)
	case *ssa.MapUpdate:
		m := fr.termOf(fr.val(in.Map))
		mt := types.Unalias(in.Map.Type()).Underlying().(*types.Map)
		fr.panicAt(in.Pos(), "nil-map-write", Eq(m, Nil))
		fr.mapUpdate(m, mt, fr.termOf(fr.val(in.Key)), fr.termOf(fr.val(in.Value)))
	case *ssa.MakeMap:
		ref := fr.alloc("map")
		mt := types.Unalias(in.Type()).Underlying().(*types.Map)
		ks := tm.SortOf(mt.Key())
		dn := mapDomComp(mt)
		dom := fr.R.Heap.Get(fr.st, dn, ArraySort(SInt, ArraySort(ks, SBool)))
		empty := T(fmt.Sprintf("((as const %s) false)", ArraySort(ks, SBool)), ArraySort(ks, SBool))
		fr.R.Heap.Set(fr.st, dn, fr.define("h", Store(dom, ref, empty)))
		ln := fr.R.Heap.Get(fr.st, mapLenComp(mt), ArraySort(SInt, SInt))
		fr.R.Heap.Set(fr.st, mapLenComp(mt), fr.define("h", Store(ln, ref, IntLit(0))))
		fr.env[in] = TV(ref)
		if mapStaysLocal(in, fr.depth == 0) {
			if fr.ownMaps == nil {
				fr.ownMaps = map[string]*types.Map{}
			}
			fr.ownMaps[ref.S] = mt
		}
	case *ssa.MakeSlice:
		ref := fr.alloc("mkslice")
		st := types.Unalias(in.Type()).Underlying().(*types.Slice)
		es := tm.SortOf(st.Elem())
		n := fr.termOf(fr.val(in.Len))
		c := fr.termOf(fr.val(in.Cap))
		fr.panicAt(in.Pos(), "makeslice-len", Or(Lt(n, IntLit(0)), Lt(c, n)))
		if sz := elemSizeKnownZero(st.Elem()); !sz {
			// runtime.makeslice panics ("cap out of range") when cap*elemsize exceeds the address space; with A-MEM's
			// bound on every existing slice (2^62 elements) the necessary condition checked here is cap <= 2^62
			fr.panicAt(in.Pos(), "makeslice-cap-out-of-range", Lt(IntLit(4611686018427387904), c))
		}
		name := elemsComp(st.Elem())
		arr := fr.R.Heap.Get(fr.st, name, ArraySort(SInt, ArraySort(SInt, es)))
		zero := T(fmt.Sprintf("((as const %s) %s)", ArraySort(SInt, es), tm.Zero(st.Elem()).S), ArraySort(SInt, es))
		fr.R.Heap.Set(fr.st, name, fr.define("h", Store(arr, ref, zero)))
		fr.env[in] = TV(fr.define(in.Name(), app(SSlice, "mk-slice", ref, IntLit(0), n, c)))
	case *ssa.MakeChan:
		ref := fr.alloc("chan")
		cc := fr.R.Heap.Get(fr.st, chanClosedComp, ArraySort(SInt, SBool))
		fr.R.Heap.Set(fr.st, chanClosedComp, fr.define("h", Store(cc, ref, False)))
		fr.env[in] = TV(ref)
	case *ssa.MakeClosure:
		ref := fr.alloc("closure")
		ci := &closureInfo{fn: in.Fn.(*ssa.Function)}
		for _, b := range in.Bindings {
			ci.bindings = append(ci.bindings, fr.val(b))
		}
		fr.R.closures[ref.S] = ci
		fr.env[in] = TV(ref)
	case *ssa.MakeInterface:
		fr.env[in] = TV(fr.makeInterface(fr.val(in.X), in.X.Type()))
	case *ssa.ChangeInterface:
		fr.env[in] = fr.val(in.X)
	case *ssa.ChangeType:
		if _, fromTP := types.Unalias(in.X.Type()).(*types.TypeParam); fromTP {
			if _, toIface := types.Unalias(in.Type()).Underlying().(*types.Interface); toIface {
				if _, toTP := types.Unalias(in.Type()).(*types.TypeParam); !toTP {
					// go/ssa emits changetype for "any(x)" with x of type-parameter type: a boxing conversion here
					fr.env[in] = TV(fr.makeInterface(fr.val(in.X), in.X.Type()))
					break
				}
			}
		}
		fr.env[in] = fr.convertRepr(fr.val(in.X), in.X.Type(), in.Type())
	case *ssa.Convert:
		fr.execConvert(in)
	case *ssa.MultiConvert:
		fr.env[in] = TV(fr.freshTyped("mconv", in.Type()))
		fr.R.note("generic conversion at %s is an unconstrained value", fr.R.pos(in.Pos()))
	case *ssa.TypeAssert:
		fr.execTypeAssert(in)
	case *ssa.Slice:
		fr.execSlice(in)
	case *ssa.Extract:
		tup := fr.val(in.Tuple)
		if in.Index >= len(tup.Tuple) {
			fr.R.unsupported("extract %d of %d-tuple", in.Index, len(tup.Tuple))
		}
		fr.env[in] = tup.Tuple[in.Index]
	case *ssa.Phi:
		var v Val
		first := true
		for i := len(in.Edges) - 1; i >= 0; i-- {
			pred := fr.curBlock.Preds[i]
			g, ok := fr.predGuard[pred]
			if !ok {
				continue
			}
			ev := fr.val(in.Edges[i])
			if first {
				v = ev
				first = false
			} else {
				v = fr.iteVal(g, ev, v)
			}
		}
		if v.T.S != "" {
			v.T = fr.define(in.Name(), v.T)
		}
		fr.env[in] = v
	case *ssa.Call:
		res := fr.call(in, &in.Call, in.Pos())
		fr.env[in] = res
	case *ssa.Defer:
		if in.DeferStack != nil {
			// explicit defer stacks (range-over-func bodies) are handled like ordinary defers of the frame
		}
		idx := len(fr.defers)
		fr.defers = append(fr.defers, in)
		fr.st.ghost[fr.deferFlag(idx)] = True
	case *ssa.RunDefers:
		fr.runDefers()
	case *ssa.Go:
		fr.execGo(in)
	case *ssa.Send:
		ch := fr.termOf(fr.val(in.Chan))
		fr.onSend(in, ch, fr.val(in.X))
	case *ssa.Select:
		fr.execSelect(in)
	case *ssa.Range:
		fr.execRange(in)
	case *ssa.Next:
		fr.execNext(in)
	case *ssa.SliceToArrayPointer:
		fr.R.unsupported("slice to array pointer")
	default:
		fr.R.unsupported("instruction %T at %s", in, fr.R.pos(in.Pos()))
	}
}

func (fr *Frame) deferFlag(i int) string {
	return fmt.Sprintf("defer.%s.%d.%d", fr.Fn.Name(), fr.id, i)
}

func (fr *Frame) nilCheck(l *Loc, pos token.Pos) {
	switch l.Kind {
	case LObj, LBox:
		if len(l.Path) == 0 || l.Kind == LObj {
			if strings.HasPrefix(l.Ref.S, "new.") || strings.HasPrefix(l.Ref.S, "(+ ") {
				return
			}
			fr.panicAt(pos, "nil-deref", Eq(l.Ref, Nil))
		}
	}
}

func (fr *Frame) boundsCheck(i, n Term, pos token.Pos) {
	fr.panicAt(pos, "index", Or(Lt(i, IntLit(0)), Le(n, i)))
}

func (fr *Frame) execUnOp(in *ssa.UnOp) {
	switch in.Op {
	case token.MUL:
		x := fr.val(in.X)
		elem := in.X.Type().Underlying().(*types.Pointer).Elem()
		l := fr.locOf(x, elem)
		fr.nilCheck(l, in.Pos())
		fr.checkDiscipline(l, in.Pos(), false)
		t := fr.load(l)
		v := TV(t)
		if al, ok := fr.R.addrTable[t.S]; ok {
			v.Loc = al
		}
		fr.env[in] = v
	case token.NOT:
		fr.env[in] = TV(Not(fr.termOf(fr.val(in.X))))
	case token.SUB:
		x := fr.termOf(fr.val(in.X))
		if x.Sort == SF64 {
			fr.useF64()
			fr.R.Sc.DeclareFun("f64.neg", []Sort{SF64}, SF64)
			fr.env[in] = TV(app(SF64, "f64.neg", x))
			return
		}
		fr.env[in] = TV(fr.define(in.Name(), fr.wrap(Sub(IntLit(0), x), in.Type())))
	case token.ARROW:
		ch := fr.termOf(fr.val(in.X))
		fr.env[in] = fr.onRecv(in, ch)
	case token.XOR:
		fr.R.Sc.DeclareFun("bits.not", []Sort{SInt}, SInt)
		fr.env[in] = TV(app(SInt, "bits.not", fr.termOf(fr.val(in.X))))
	default:
		fr.R.unsupported("unary %s", in.Op)
	}
}

// wrap applies machine-integer wrap-around for the result type.
func (fr *Frame) wrap(t Term, ty types.Type) Term {
	lo, hi, ok := IntRange(ty)
	if !ok {
		return t
	}
	if lo == "-9223372036854775808" {
		return app(SInt, "wrap64", t)
	}
	// general modular wrap: ((t - lo) mod 2^k) + lo
	var size string
	switch hi {
	case "2147483647":
		size = "4294967296"
	case "32767":
		size = "65536"
	case "127":
		size = "256"
	case "18446744073709551615":
		size = "18446744073709551616"
	case "4294967295":
		size = "4294967296"
	case "65535":
		size = "65536"
	case "255":
		size = "256"
	}
	return T(fmt.Sprintf("(+ (mod (- %s %s) %s) %s)", t.S, BigLit(lo).S, size, BigLit(lo).S), SInt)
}

func (fr *Frame) binop(op token.Token, x, y Term, xt, yt, rt types.Type, pos token.Pos) Term {
	sc := fr.R.Sc
	switch x.Sort {
	case SInt:
		if _, _, isInt := IntRange(xt); isInt {
			switch op {
			case token.ADD:
				return fr.wrap(Add(x, y), rt)
			case token.SUB:
				return fr.wrap(Sub(x, y), rt)
			case token.MUL:
				return fr.wrap(app(SInt, "*", x, y), rt)
			case token.QUO:
				fr.panicAt(pos, "div-by-zero", Eq(y, IntLit(0)))
				return fr.wrap(app(SInt, "godiv", x, y), rt)
			case token.REM:
				fr.panicAt(pos, "div-by-zero", Eq(y, IntLit(0)))
				return app(SInt, "gomod", x, y)
			case token.LSS:
				return Lt(x, y)
			case token.LEQ:
				return Le(x, y)
			case token.GTR:
				return Lt(y, x)
			case token.GEQ:
				return Le(y, x)
			case token.EQL:
				return Eq(x, y)
			case token.NEQ:
				return Not(Eq(x, y))
			case token.SHL, token.SHR, token.AND, token.OR, token.XOR, token.AND_NOT:
				name := "bits." + map[token.Token]string{token.SHL: "shl", token.SHR: "shr", token.AND: "and", token.OR: "or", token.XOR: "xor", token.AND_NOT: "andnot"}[op]
				sc.DeclareFun(name, []Sort{SInt, SInt}, SInt)
				r := sc.Define("bits", app(SInt, name, x, y))
				fr.typeFacts(r, rt)
				return r
			}
		}
		// references
		switch op {
		case token.EQL:
			return Eq(x, y)
		case token.NEQ:
			return Not(Eq(x, y))
		}
	case SBool:
		switch op {
		case token.EQL:
			return Eq(x, y)
		case token.NEQ:
			return Not(Eq(x, y))
		case token.LAND, token.AND:
			return And(x, y)
		case token.LOR, token.OR:
			return Or(x, y)
		}
	case SString:
		switch op {
		case token.ADD:
			return app(SString, "str.++", x, y)
		case token.EQL:
			return Eq(x, y)
		case token.NEQ:
			return Not(Eq(x, y))
		case token.LSS:
			return app(SBool, "str.<", x, y)
		case token.LEQ:
			return app(SBool, "str.<=", x, y)
		case token.GTR:
			return app(SBool, "str.<", y, x)
		case token.GEQ:
			return app(SBool, "str.<=", y, x)
		}
	case SF64:
		fr.useF64()
		name := "f64." + map[token.Token]string{token.ADD: "add", token.SUB: "sub", token.MUL: "mul", token.QUO: "div", token.LSS: "lt", token.LEQ: "le", token.GTR: "gt", token.GEQ: "ge"}[op]
		switch op {
		case token.EQL:
			sc.DeclareFun("f64.eq", []Sort{SF64, SF64}, SBool)
			return app(SBool, "f64.eq", x, y)
		case token.NEQ:
			sc.DeclareFun("f64.eq", []Sort{SF64, SF64}, SBool)
			return Not(app(SBool, "f64.eq", x, y))
		case token.LSS, token.LEQ, token.GTR, token.GEQ:
			sc.DeclareFun(name, []Sort{SF64, SF64}, SBool)
			return app(SBool, name, x, y)
		case token.ADD, token.SUB, token.MUL, token.QUO:
			sc.DeclareFun(name, []Sort{SF64, SF64}, SF64)
			return app(SF64, name, x, y)
		}
	case SIface:
		switch op {
		case token.EQL:
			return fr.ifaceEq(x, y)
		case token.NEQ:
			return Not(fr.ifaceEq(x, y))
		}
	default:
		switch op {
		case token.EQL:
			return Eq(x, y)
		case token.NEQ:
			return Not(Eq(x, y))
		}
	}
	fr.R.unsupported("binary %s on %s at %s", op, x.Sort, fr.R.pos(pos))
	return Term{}
}

func (fr *Frame) ifaceEq(x, y Term) Term {
	if isNilIfaceTerm(y) {
		return Eq(app(SInt, "i-typ", x), IntLit(0))
	}
	if isNilIfaceTerm(x) {
		return Eq(app(SInt, "i-typ", y), IntLit(0))
	}
	return Eq(x, y)
}

func (fr *Frame) boxFns(s Sort) (box, unbox string) {
	k := sortKey(s)
	box, unbox = "box."+k, "unbox."+k
	fr.R.Sc.DeclareFun(box, []Sort{s}, SInt)
	fr.R.Sc.DeclareFun(unbox, []Sort{SInt}, s)
	return
}

func (fr *Frame) makeInterface(x Val, t types.Type) Term {
	code := fr.R.TM.TypeCode(t)
	xt := fr.termOf(x)
	if xt.Sort == SInt && isRefLike(t) {
		return fr.define("mi", app(SIface, "mk-iface", code, xt))
	}
	box, unbox := fr.boxFns(xt.Sort)
	b := fr.define("bx", app(SInt, box, xt))
	fr.R.Sc.Assume(Eq(app(xt.Sort, unbox, b), xt))
	return fr.define("mi", app(SIface, "mk-iface", code, b))
}

func (fr *Frame) execTypeAssert(in *ssa.TypeAssert) {
	x := fr.termOf(fr.val(in.X))
	tm := fr.R.TM
	var ok, v Term
	if tp, isTP := types.Unalias(in.AssertedType).(*types.TypeParam); isTP {
		// dynamic type test against a type parameter: uninterpreted (the instantiation is not known here)
		s := tm.SortOf(tp)
		okName, vName := "istp."+sanitize(tp.Obj().Name()), "astp."+sanitize(tp.Obj().Name())
		fr.R.Sc.DeclareFun(okName, []Sort{SInt}, SBool)
		fr.R.Sc.DeclareFun(vName, []Sort{SIface}, s)
		ok = And(Not(Eq(app(SInt, "i-typ", x), IntLit(0))), app(SBool, okName, app(SInt, "i-typ", x)))
		v = app(s, vName, x)
	} else if _, isIface := types.Unalias(in.AssertedType).Underlying().(*types.Interface); isIface {
		if x.Sort != SIface {
			fr.R.unsupported("type assertion on %s", x.Sort)
		}
		name := "implements." + sanitize(typeKey(in.AssertedType))
		fr.R.Sc.DeclareFun(name, []Sort{SInt}, SBool)
		ok = And(Not(Eq(app(SInt, "i-typ", x), IntLit(0))), app(SBool, name, app(SInt, "i-typ", x)))
		if it, isI := types.Unalias(in.AssertedType).Underlying().(*types.Interface); isI && it.NumMethods() == 0 {
			ok = Not(Eq(app(SInt, "i-typ", x), IntLit(0)))
		}
		v = x
	} else {
		if x.Sort != SIface {
			fr.R.unsupported("type assertion on %s", x.Sort)
		}
		code := tm.TypeCode(in.AssertedType)
		ok = Eq(app(SInt, "i-typ", x), code)
		s := tm.SortOf(in.AssertedType)
		if s == SInt && isRefLike(in.AssertedType) {
			v = app(SInt, "i-val", x)
		} else {
			_, unbox := fr.boxFns(s)
			v = app(s, unbox, app(SInt, "i-val", x))
		}
	}
	ok = fr.define("taok", ok)
	if in.CommaOk {
		zero := tm.Zero(in.AssertedType)
		val := fr.define(in.Name(), Ite(ok, v, zero))
		fr.typeFacts(val, in.AssertedType)
		fr.env[in] = Val{Tuple: []Val{TV(val), TV(ok)}}
		return
	}
	fr.panicAt(in.Pos(), "type-assert", Not(ok))
	val := fr.define(in.Name(), v)
	fr.typeFacts(val, in.AssertedType)
	fr.env[in] = TV(val)
}

func (fr *Frame) execConvert(in *ssa.Convert) {
	x := fr.termOf(fr.val(in.X))
	from, to := types.Unalias(in.X.Type()).Underlying(), types.Unalias(in.Type()).Underlying()
	fs, ts := fr.R.TM.SortOf(in.X.Type()), fr.R.TM.SortOf(in.Type())
	_, _, fromInt := IntRange(from)
	_, _, toInt := IntRange(to)
	switch {
	case fromInt && toInt:
		fr.env[in] = TV(fr.define(in.Name(), fr.wrap(x, in.Type())))
	case fs == ts && fs != SSlice:
		fr.env[in] = TV(x)
	case isStructType(in.X.Type()) && isStructType(in.Type()):
		fr.env[in] = fr.convertRepr(fr.val(in.X), in.X.Type(), in.Type())
	case fs == SSlice && ts == SString:
		// string(bytes): an uninterpreted function of the backing row and the window
		es := fr.R.TM.SortOf(from.(*types.Slice).Elem())
		arr := fr.R.Heap.Get(fr.st, elemsComp(from.(*types.Slice).Elem()), ArraySort(SInt, ArraySort(SInt, es)))
		fr.R.Sc.DeclareFun("str.of.bytes", []Sort{ArraySort(SInt, es), SInt, SInt}, SString)
		r := fr.define(in.Name(), app(SString, "str.of.bytes", Select(arr, app(SInt, "s-arr", x), ArraySort(SInt, es)), app(SInt, "s-off", x), app(SInt, "s-len", x)))
		fr.assume(Eq(app(SInt, "str.len", r), app(SInt, "s-len", x)))
		fr.env[in] = TV(r)
	case fs == SString && ts == SSlice:
		es := fr.R.TM.SortOf(to.(*types.Slice).Elem())
		ref := fr.alloc("bytes")
		name := elemsComp(to.(*types.Slice).Elem())
		arr := fr.R.Heap.Get(fr.st, name, ArraySort(SInt, ArraySort(SInt, es)))
		row := fr.R.Sc.FreshConst("row", ArraySort(SInt, es))
		fr.R.Heap.Set(fr.st, name, fr.define("h", Store(arr, ref, row)))
		n := app(SInt, "str.len", x)
		fr.R.Sc.DeclareFun("str.of.bytes", []Sort{ArraySort(SInt, es), SInt, SInt}, SString)
		fr.assume(Eq(app(SString, "str.of.bytes", row, IntLit(0), n), x))
		fr.env[in] = TV(fr.define(in.Name(), app(SSlice, "mk-slice", ref, IntLit(0), n, n)))
	case fs == SSlice && ts == SSlice:
		fr.env[in] = TV(x)
	case fromInt && ts == SF64:
		fr.useF64()
		fr.R.Sc.DeclareFun("f64.of.int", []Sort{SInt}, SF64)
		fr.env[in] = TV(app(SF64, "f64.of.int", x))
	case fs == SF64 && toInt:
		fr.useF64()
		fr.R.Sc.DeclareFun("int.of.f64", []Sort{SF64}, SInt)
		r := fr.define(in.Name(), app(SInt, "int.of.f64", x))
		fr.typeFacts(r, in.Type())
		fr.env[in] = TV(r)
	case fromInt && ts == SString:
		fr.R.Sc.DeclareFun("str.of.rune", []Sort{SInt}, SString)
		fr.env[in] = TV(app(SString, "str.of.rune", x))
	default:
		fr.env[in] = TV(fr.freshTyped("conv", in.Type()))
		fr.R.note("conversion %s -> %s at %s is an unconstrained value", in.X.Type(), in.Type(), fr.R.pos(in.Pos()))
	}
}

func (fr *Frame) execIndexAddr(in *ssa.IndexAddr) {
	x := fr.val(in.X)
	i := fr.termOf(fr.val(in.Index))
	switch u := types.Unalias(in.X.Type()).Underlying().(type) {
	case *types.Slice:
		s := fr.termOf(x)
		fr.boundsCheck(i, app(SInt, "s-len", s), in.Pos())
		fr.env[in] = Val{Loc: &Loc{Kind: LElem, Ref: app(SInt, "s-arr", s), Idx: fr.define("ix", Add(app(SInt, "s-off", s), i)), Type: u.Elem()}}
	case *types.Pointer:
		at := types.Unalias(u.Elem()).Underlying().(*types.Array)
		ref := fr.termOf(x)
		fr.boundsCheck(i, IntLit(at.Len()), in.Pos())
		fr.env[in] = Val{Loc: &Loc{Kind: LElem, Ref: ref, Idx: i, Type: at.Elem()}}
	default:
		fr.R.unsupported("indexaddr of %s", in.X.Type())
	}
}

func (fr *Frame) execSlice(in *ssa.Slice) {
	x := fr.val(in.X)
	var lo, hi Term
	if in.Low != nil {
		lo = fr.termOf(fr.val(in.Low))
	} else {
		lo = IntLit(0)
	}
	switch u := types.Unalias(in.X.Type()).Underlying().(type) {
	case *types.Slice:
		s := fr.termOf(x)
		if in.High != nil {
			hi = fr.termOf(fr.val(in.High))
		} else {
			hi = app(SInt, "s-len", s)
		}
		capT := app(SInt, "s-cap", s)
		fr.panicAt(in.Pos(), "slice-bounds", Or(Lt(lo, IntLit(0)), Lt(hi, lo), Lt(capT, hi)))
		newCap := Sub(capT, lo)
		if in.Max != nil {
			newCap = Sub(fr.termOf(fr.val(in.Max)), lo)
		}
		r := fr.define(in.Name(), app(SSlice, "mk-slice", app(SInt, "s-arr", s), Add(app(SInt, "s-off", s), lo), Sub(hi, lo), newCap))
		if fr.R.TM.SortOf(u.Elem()) == SSlice {
			es := SSlice
			E := fr.R.Heap.Get(fr.st, elemsComp(u.Elem()), ArraySort(SInt, ArraySort(SInt, es)))
			row := fr.define("row", Select(E, app(SInt, "s-arr", s), ArraySort(SInt, es)))
			off := app(SInt, "s-off", s)
			a, b, c, d := off, fr.define("sl.lo", Add(off, lo)), fr.define("sl.hi", Add(off, hi)), fr.define("sl.end", Add(off, app(SInt, "s-len", s)))
			fr.sumSplit(row, a, b, d)
			fr.sumSplit(row, b, c, d)
			if lo.S == "1" {
				fr.sumSingle(row, a)
			}
		}
		fr.env[in] = TV(r)
	case *types.Basic:
		s := fr.termOf(x)
		if in.High != nil {
			hi = fr.termOf(fr.val(in.High))
		} else {
			hi = app(SInt, "str.len", s)
		}
		fr.panicAt(in.Pos(), "slice-bounds", Or(Lt(lo, IntLit(0)), Lt(hi, lo), Lt(app(SInt, "str.len", s), hi)))
		fr.env[in] = TV(fr.define(in.Name(), app(SString, "str.substr", s, lo, Sub(hi, lo))))
	case *types.Pointer:
		at := types.Unalias(u.Elem()).Underlying().(*types.Array)
		ref := fr.termOf(x)
		n := IntLit(at.Len())
		if in.High != nil {
			hi = fr.termOf(fr.val(in.High))
		} else {
			hi = n
		}
		fr.env[in] = TV(fr.define(in.Name(), app(SSlice, "mk-slice", ref, lo, Sub(hi, lo), Sub(n, lo))))
	default:
		fr.R.unsupported("slice of %s", in.X.Type())
	}
}

// ---------- maps ----------

func (fr *Frame) mapSorts(mt *types.Map) (ks, vs Sort) {
	return fr.R.TM.SortOf(mt.Key()), fr.R.TM.SortOf(mt.Elem())
}

func (fr *Frame) mapDom(m Term, mt *types.Map) Term {
	ks, _ := fr.mapSorts(mt)
	return Select(fr.R.Heap.Get(fr.st, mapDomComp(mt), ArraySort(SInt, ArraySort(ks, SBool))), m, ArraySort(ks, SBool))
}

func (fr *Frame) mapVals(m Term, mt *types.Map) Term {
	ks, vs := fr.mapSorts(mt)
	fr.R.Heap.NoteType(mapValComp(mt), mt.Elem())
	return Select(fr.R.Heap.Get(fr.st, mapValComp(mt), ArraySort(SInt, ArraySort(ks, vs))), m, ArraySort(ks, vs))
}

func (fr *Frame) mapLen(m Term, mt *types.Map) Term {
	l := Select(fr.R.Heap.Get(fr.st, mapLenComp(mt), ArraySort(SInt, SInt)), m, SInt)
	return l
}

func (fr *Frame) execLookup(in *ssa.Lookup) {
	x := fr.termOf(fr.val(in.X))
	k := fr.termOf(fr.val(in.Index))
	if mt, ok := types.Unalias(in.X.Type()).Underlying().(*types.Map); ok {
		_, vs := fr.mapSorts(mt)
		present := fr.define("has", And(Not(Eq(x, Nil)), Select(fr.mapDom(x, mt), k, SBool)))
		v := fr.define(in.Name(), Ite(present, Select(fr.mapVals(x, mt), k, vs), fr.R.TM.Zero(mt.Elem())))
		fr.typeFacts(v, mt.Elem())
		if in.CommaOk {
			fr.env[in] = Val{Tuple: []Val{TV(v), TV(present)}}
		} else {
			fr.env[in] = TV(v)
		}
		return
	}
	// string index
	fr.boundsCheck(k, app(SInt, "str.len", x), in.Pos())
	fr.env[in] = TV(fr.define(in.Name(), app(SInt, "str.to_code", app(SString, "str.at", x, k))))
}

func (fr *Frame) mapUpdate(m Term, mt *types.Map, k, v Term) {
	ks, vs := fr.mapSorts(mt)
	h := fr.R.Heap
	dn, vn := mapDomComp(mt), mapValComp(mt)
	domAll := h.Get(fr.st, dn, ArraySort(SInt, ArraySort(ks, SBool)))
	valAll := h.Get(fr.st, vn, ArraySort(SInt, ArraySort(ks, vs)))
	dom := Select(domAll, m, ArraySort(ks, SBool))
	was := fr.define("was", Select(dom, k, SBool))
	h.Set(fr.st, dn, fr.define("h", Store(domAll, m, Store(dom, k, True))))
	h.Set(fr.st, vn, fr.define("h", Store(valAll, m, Store(Select(valAll, m, ArraySort(ks, vs)), k, v))))
	ln := h.Get(fr.st, mapLenComp(mt), ArraySort(SInt, SInt))
	h.Set(fr.st, mapLenComp(mt), fr.define("h", Store(ln, m, Add(Select(ln, m, SInt), Ite(was, IntLit(0), IntLit(1))))))
}

func (fr *Frame) mapDelete(m Term, mt *types.Map, k Term) {
	ks, _ := fr.mapSorts(mt)
	h := fr.R.Heap
	dn := mapDomComp(mt)
	domAll := h.Get(fr.st, dn, ArraySort(SInt, ArraySort(ks, SBool)))
	dom := Select(domAll, m, ArraySort(ks, SBool))
	was := fr.define("was", And(Not(Eq(m, Nil)), Select(dom, k, SBool)))
	// delete on a nil map is a no-op
	h.Set(fr.st, dn, fr.define("h", Ite(Eq(m, Nil), domAll, Store(domAll, m, Store(dom, k, False)))))
	ln := h.Get(fr.st, mapLenComp(mt), ArraySort(SInt, SInt))
	h.Set(fr.st, mapLenComp(mt), fr.define("h", Ite(Eq(m, Nil), ln, Store(ln, m, Sub(Select(ln, m, SInt), Ite(was, IntLit(1), IntLit(0)))))))
}

func isStructType(t types.Type) bool {
	_, ok := types.Unalias(t).Underlying().(*types.Struct)
	return ok
}

// convertRepr converts between types with identical underlying types; only by-value structs change representation
// (each struct type has its own datatype).
func (fr *Frame) convertRepr(v Val, from, to types.Type) Val {
	if v.T.S == "" || !isStructType(from) || !isStructType(to) {
		return v
	}
	fsort, tsort := fr.R.TM.SortOf(from), fr.R.TM.SortOf(to)
	if fsort == tsort {
		return v
	}
	return TV(fr.define("cv", fr.convertStructTerm(v.T, from, to)))
}

func (fr *Frame) convertStructTerm(x Term, from, to types.Type) Term {
	if fr.isOpaqueStruct(from) || fr.isOpaqueStruct(to) {
		fr.R.unsupported("conversion between opaque struct types %s and %s", from, to)
	}
	fsi, tsi := fr.R.TM.Struct(from), fr.R.TM.Struct(to)
	if len(tsi.Fields) == 0 {
		return fr.R.TM.Zero(to)
	}
	args := make([]Term, len(tsi.Fields))
	for i := range tsi.Fields {
		a := app(fsi.Fields[i].Sort, fsi.Fields[i].Sel, x)
		if fsi.Fields[i].Sort != tsi.Fields[i].Sort && isStructType(fsi.Fields[i].Type) {
			a = fr.convertStructTerm(a, fsi.Fields[i].Type, tsi.Fields[i].Type)
		}
		args[i] = a
	}
	return app(Sort(tsi.Name), tsi.Ctor, args...)
}

// sumPointUpdate: trusted fact about sumlen (sum of s-len over a window of a row) under a one-element update.
func (fr *Frame) sumPointUpdate(oldRow, newRow, idx, v Term) {
	sc := fr.R.Sc
	lo := fmt.Sprintf("lo?%d", sc.n)
	hi := fmt.Sprintf("hi?%d", sc.n+1)
	sc.n += 2
	fr.R.Trusted["axioms of sumlen (sum of element lengths over a window): non-negative, empty window is 0, split, one-element update"] = true
	sc.Assume(T(fmt.Sprintf("(forall ((%s Int) (%s Int)) (! (= (sumlen %s %s %s) (+ (sumlen %s %s %s) (ite (and (<= %s %s) (< %s %s)) (- (s-len %s) (s-len (select %s %s))) 0))) :pattern ((sumlen %s %s %s))))",
		lo, hi, newRow.S, lo, hi, oldRow.S, lo, hi, lo, idx.S, idx.S, hi, v.S, oldRow.S, idx.S, newRow.S, lo, hi), SBool))
}

// sumSplit: sumlen(row, lo, hi) = sumlen(row, lo, m) + sumlen(row, m, hi) for lo <= m <= hi; single windows are s-len.
func (fr *Frame) sumSplit(row, lo, m, hi Term) {
	fr.R.Trusted["axioms of sumlen (sum of element lengths over a window): non-negative, empty window is 0, split, one-element update"] = true
	fr.R.Sc.Assume(Implies(And(Le(lo, m), Le(m, hi)), Eq(app(SInt, "sumlen", row, lo, hi), Add(app(SInt, "sumlen", row, lo, m), app(SInt, "sumlen", row, m, hi)))))
}

func (fr *Frame) sumSingle(row, i Term) {
	fr.R.Sc.Assume(Eq(app(SInt, "sumlen", row, i, Add(i, IntLit(1))), app(SInt, "s-len", Select(row, i, SSlice))))
}

// elemSizeKnownZero: the element type certainly occupies no memory (struct{} and arrays/structs of such).
func elemSizeKnownZero(t types.Type) bool {
	switch u := types.Unalias(t).Underlying().(type) {
	case *types.Struct:
		for i := 0; i < u.NumFields(); i++ {
			if !elemSizeKnownZero(u.Field(i).Type()) {
				return false
			}
		}
		return true
	case *types.Array:
		return u.Len() == 0 || elemSizeKnownZero(u.Elem())
	}
	return false
}
