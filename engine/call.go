package gov

import (
	"fmt"
	"os"
	"strconv"
	"go/token"
	"go/types"
	"strings"

	"golang.org/x/tools/go/ssa"
)

var purePkgs = map[string]bool{
	"strings": true, "strconv": true, "errors": true, "unicode": true, "unicode/utf8": true, "math": true, "path": true,
	"net/url": true, "mime": true, "time": true, "crypto/rand": true, "regexp": true, "html": true, "cmp": true, "math/bits": true,
	"path/filepath": true, "unicode/utf16": true, "net/netip": true, "iter": true,
}

var pureFuncs = map[string]bool{
	"fmt.Sprintf": true, "fmt.Errorf": true, "fmt.Sprint": true, "fmt.Sprintln": true,
	"slices.Contains": true, "slices.Index": true, "slices.Equal": true, "slices.BinarySearch": true, "slices.Clone": true,
	"slices.Sorted": true, "slices.Collect": true, "slices.Max": true, "slices.Min": true, "slices.Values": true,
	"maps.Keys": true, "maps.Values": true, "maps.Clone": true,
	"bytes.Equal": true, "bytes.TrimSpace": true, "bytes.HasPrefix": true, "bytes.HasSuffix": true, "bytes.Contains": true,
	"bytes.IndexByte": true, "bytes.Index": true, "bytes.Cut": true, "bytes.TrimRight": true, "bytes.TrimPrefix": true, "bytes.TrimSuffix": true,
	"(*encoding/base64.Encoding).EncodeToString": true, "(*encoding/base64.Encoding).DecodeString": true,
	"encoding/json.Marshal": true, "encoding/json.Valid": true,
	"context.Background": true, "context.TODO": true, "context.WithValue": true, "context.WithCancel": true, "context.WithTimeout": true,
	"context.WithoutCancel": true, "context.WithCancelCause": true, "context.Cause": true, "context.WithDeadline": true,
	"(*net/http.Request).Context": true, "(*net/http.Request).WithContext": true, "(net/http.Header).Get": true, "(net/http.Header).Values": true,
	"net/http.StatusText": true, "(*net/http.Request).Cookie": true,
	"reflect.TypeOf": true, "reflect.ValueOf": true, "reflect.TypeFor": true, "reflect.DeepEqual": true,
	"(*sync.Mutex).Lock": true, "(*sync.Mutex).Unlock": true, "(*sync.RWMutex).Lock": true, "(*sync.RWMutex).Unlock": true,
	"(*sync.RWMutex).RLock": true, "(*sync.RWMutex).RUnlock": true, "(*sync.Mutex).TryLock": true,
	"(*log/slog.Logger).Info": true, "(*log/slog.Logger).Warn": true, "(*log/slog.Logger).Error": true, "(*log/slog.Logger).Debug": true,
	"(*log/slog.Logger).Log": true, "log/slog.String": true, "log/slog.Any": true, "log/slog.Int": true, "log.Printf": true,
	"(*log/slog.Logger).With": true, "(*log/slog.Logger).Enabled": true, "(*log/slog.Logger).DebugContext": true,
	"(*log/slog.Logger).InfoContext": true, "(*log/slog.Logger).WarnContext": true, "(*log/slog.Logger).ErrorContext": true,
	"io.ReadAll": false,
}

func (fr *Frame) fnOrigin(fn *ssa.Function) *ssa.Function {
	if o := fn.Origin(); o != nil {
		return o
	}
	return fn
}

// calleeNames lists the names a call can be referred to by in 'track' / 'assert at call' clauses.
func (fr *Frame) calleeNames(cc *ssa.CallCommon) []string {
	var names []string
	if cc.IsInvoke() {
		vn := valueSourceName(cc.Value)
		names = append(names, cc.Method.Name())
		if vn != "" {
			names = append(names, vn+"."+cc.Method.Name())
		}
		names = append(names, "("+typeKey(cc.Value.Type())+")."+cc.Method.Name())
		return names
	}
	if fn := cc.StaticCallee(); fn != nil {
		o := fr.fnOrigin(fn)
		if fr.R.Eng.monitorFor(fn) != nil {
			// a call of a monitor's via-function is also known by the name of the action literal it runs
			for _, a := range cc.Args {
				if mc, ok := a.(*ssa.MakeClosure); ok {
					names = append(names, mc.Fn.Name())
				} else if f, ok := a.(*ssa.Function); ok && f.Parent() != nil {
					names = append(names, f.Name())
				}
			}
		}
		names = append(names, o.Name(), fr.R.fnShort(o))
		if o.Pkg != nil {
			names = append(names, o.Pkg.Pkg.Name()+"."+o.Name())
			names = append(names, o.RelString(o.Pkg.Pkg))
		}
		if _, ok := cc.Value.(*ssa.MakeClosure); ok {
			return names
		}
		return names
	}
	if vn := valueSourceName(cc.Value); vn != "" {
		names = append(names, vn)
	}
	return names
}

// valueSourceName recovers the source-level name an SSA value was read from.
func valueSourceName(v ssa.Value) string {
	switch v := v.(type) {
	case *ssa.Parameter:
		return v.Name()
	case *ssa.FreeVar:
		return v.Name()
	case *ssa.Alloc:
		return v.Comment
	case *ssa.UnOp:
		if v.Op == token.MUL {
			return valueSourceName(v.X)
		}
	case *ssa.FieldAddr:
		st := types.Unalias(v.X.Type().Underlying().(*types.Pointer).Elem()).Underlying().(*types.Struct)
		base := valueSourceName(v.X)
		if base != "" {
			return base + "." + st.Field(v.Field).Name()
		}
		return st.Field(v.Field).Name()
	case *ssa.ChangeType:
		return valueSourceName(v.X)
	case *ssa.MakeInterface:
		return valueSourceName(v.X)
	case *ssa.Global:
		return v.Name()
	}
	return ""
}

func (fr *Frame) call(instr ssa.Instruction, cc *ssa.CallCommon, pos token.Pos) Val {
	if b, ok := cc.Value.(*ssa.Builtin); ok {
		return fr.builtin(b, cc, pos)
	}
	names := fr.calleeNames(cc)
	// at-call assertions of the unit's contract (only in the top frame: they speak about the unit's own calls)
	if c := fr.C; c != nil {
		for _, aa := range c.Asserts {
			if nameMatches(names, aa.Callee) {
				ctx := fr.ctxHere()
				args := fr.callArgVals(cc)
				vars := map[string]EV{}
				for i, a := range args {
					vars[fmt.Sprintf("$%d", i)] = valToEV(a, fr.argType(cc, i))
				}
				t, ok := ctx.with(vars).tryBool(aa.Clause.E)
				goal := Implies(fr.cur, t)
				src := aa.Clause.Src
				if !ok {
					goal = Not(fr.cur)
					src += "   [cannot be evaluated on this code: a tracked call, local or snapshot it names does not exist any more]"
				}
				fr.R.addObl("assert", aa.Callee+":"+aa.Clause.Label, goal, src, &aa.Clause, pos)
				fr.R.addCover("assert-"+aa.Clause.Label+"-reachable", fr.cur)
			}
		}
	}
	res := fr.dispatchCall(instr, cc, pos, names)
	// call log: calls made by the unit's own code (its body and the function literals nested in it)
	if c := fr.R.Contract; c != nil && fr.isUnitCode() {
		for _, tr := range c.Tracks {
			if nameMatches(names, tr.Callee) {
				cond := True
				if tr.When != nil {
					vars := map[string]EV{}
					for i, a := range fr.callArgVals(cc) {
						vars[fmt.Sprintf("$%d", i)] = valToEV(a, fr.argType(cc, i))
					}
					cond = fr.ctxHere().with(vars).Bool(tr.When)
				}
				fr.logCallIf(tr.Alias, cc, res, cond)
			}
		}
	}
	if c := fr.C; c != nil && len(c.OnCalls) > 0 {
		for _, oc := range c.OnCalls {
			if !nameMatches(names, oc.Callee) {
				continue
			}
			vars := map[string]EV{}
			for i, a := range fr.callArgVals(cc) {
				vars[fmt.Sprintf("$%d", i)] = valToEV(a, fr.argType(cc, i))
			}
			ctx := fr.ctxHere().with(vars)
			sig := cc.Signature()
			if res.Tuple != nil {
				for i, r := range res.Tuple {
					ctx.results = append(ctx.results, valToEV(r, sig.Results().At(i).Type()))
				}
			} else if sig.Results().Len() == 1 {
				ctx.results = []EV{valToEV(res, sig.Results().At(0).Type())}
			}
			v := ctx.Eval(oc.E)
			fr.st.ghost["gv."+oc.Var] = fr.define("gv."+oc.Var, ctx.term(v))
		}
	}
	if c := fr.C; c != nil {
		for _, sn := range c.Snaps {
			if nameMatches(names, sn.Callee) {
				if _, dup := fr.R.snaps[sn.Alias]; dup {
					fr.R.unsupported("snapshot %s is taken at more than one call site", sn.Alias)
				}
				fr.R.snaps[sn.Alias] = fr.st.Clone()
			}
		}
	}
	return res
}

func nameMatches(names []string, want string) bool {
	for _, n := range names {
		if n == want {
			return true
		}
	}
	return false
}

func (fr *Frame) argType(cc *ssa.CallCommon, i int) types.Type {
	if cc.IsInvoke() {
		if i == 0 {
			return cc.Value.Type()
		}
		return cc.Args[i-1].Type()
	}
	return cc.Args[i].Type()
}

// callArgVals returns receiver (for invoke) followed by the arguments.
func (fr *Frame) callArgVals(cc *ssa.CallCommon) []Val {
	var out []Val
	if cc.IsInvoke() {
		out = append(out, fr.val(cc.Value))
	}
	for _, a := range cc.Args {
		out = append(out, fr.val(a))
	}
	return out
}

func (fr *Frame) logCall(alias string, cc *ssa.CallCommon, res Val) {
	fr.logCallIf(alias, cc, res, True)
}

func (fr *Frame) logCallIf(alias string, cc *ssa.CallCommon, res Val, cond Term) {
	if fr.R.loggedAlias == nil {
		fr.R.loggedAlias = map[string]bool{}
	}
	fr.R.loggedAlias[alias] = true
	g := fr.st.ghost
	cntKey := "calls." + alias
	cnt, ok := g[cntKey]
	if !ok {
		cnt = IntLit(0)
	}
	args := fr.callArgVals(cc)
	var results []Val
	var resTypes []types.Type
	sig := cc.Signature()
	if res.Tuple != nil {
		results = res.Tuple
		for i := 0; i < sig.Results().Len(); i++ {
			resTypes = append(resTypes, sig.Results().At(i).Type())
		}
	} else if sig.Results().Len() == 1 {
		results = []Val{res}
		resTypes = []types.Type{sig.Results().At(0).Type()}
	}
	for n := 1; n <= 2; n++ {
		isNth := And(cond, Eq(cnt, IntLit(int64(n-1))))
		for i, r := range results {
			key := fmt.Sprintf("res.%s.%d.%d", alias, n, i)
			if _, seen := fr.R.trackTypes[key]; !seen {
				fr.R.trackTypes[key] = resTypes[i]
			}
			rt := fr.termOf(r)
			old, ok := g[key]
			if !ok {
				old = fr.R.Sc.Declare("never."+sanitize(key), rt.Sort)
			}
			if old.Sort != rt.Sort {
				// a call of another instantiation: if it is logged here at all, the slot holds an unknown value
				rt = fr.R.Sc.FreshConst("log.other", old.Sort)
			} else {
				fr.R.trackTypes[key] = resTypes[i]
			}
			g[key] = fr.define("log", Ite(isNth, rt, old))
		}
		for k, a := range args {
			key := fmt.Sprintf("arg.%s.%d.%d", alias, n, k)
			if _, seen := fr.R.trackTypes[key]; !seen {
				fr.R.trackTypes[key] = fr.argType(cc, k)
			}
			at := fr.termOf(a)
			old, ok := g[key]
			if !ok {
				old = fr.R.Sc.Declare("never."+sanitize(key), at.Sort)
			}
			if old.Sort != at.Sort {
				at = fr.R.Sc.FreshConst("log.other", old.Sort)
			}
			g[key] = fr.define("log", Ite(isNth, at, old))
		}
	}
	for i, r := range results {
		key := fmt.Sprintf("last.%s.%d", alias, i)
		rt := fr.termOf(r)
		if _, seen := fr.R.trackTypes[key]; !seen {
			fr.R.trackTypes[key] = resTypes[i]
		}
		old, ok := g[key]
		if !ok {
			old = fr.R.Sc.Declare("never."+sanitize(key), rt.Sort)
		}
		if old.Sort == rt.Sort {
			g[key] = fr.define("log", Ite(cond, rt, old))
		}
	}
	g[cntKey] = fr.define("cnt", Ite(cond, Add(cnt, IntLit(1)), cnt))
}

func (fr *Frame) dispatchCall(instr ssa.Instruction, cc *ssa.CallCommon, pos token.Pos, names []string) Val {
	saved := fr.pendingArgs
	fr.pendingArgs = fr.callArgVals(cc)
	defer func() { fr.pendingArgs = saved }()
	return fr.dispatchCall2(instr, cc, pos, names)
}

func (fr *Frame) dispatchCall2(instr ssa.Instruction, cc *ssa.CallCommon, pos token.Pos, names []string) Val {
	eng := fr.R.Eng
	if cc.IsInvoke() {
		recv := fr.val(cc.Value)
		args := append([]Val{recv}, fr.argVals(cc.Args)...)
		key := "(" + types.TypeString(cc.Value.Type(), nil) + ")." + cc.Method.Name()
		c := eng.DB.Contracts[key]
		if c == nil {
			// embedded interface method declared on another interface type (e.g. error)
			if m := cc.Method; m != nil {
				if rs := m.Type().(*types.Signature).Recv(); rs != nil {
					c = eng.DB.Contracts["("+types.TypeString(rs.Type(), nil)+")."+m.Name()]
				}
			}
		}
		if c != nil {
			return fr.applyContract(c, nil, cc, args, pos)
		}
		fr.R.note("interface call %s has no specification: heap havocked", key)
		return fr.havocCall(cc, args, true, pos)
	}
	args := fr.argVals(cc.Args)
	fn := cc.StaticCallee()
	var bindings []Val
	if fn == nil {
		// dynamic call: maybe a closure we know
		fv := fr.val(cc.Value)
		if ci, ok := fr.R.closures[fv.T.S]; ok {
			fn, bindings = ci.fn, ci.bindings
		} else if f, ok := fr.R.funcRefs[fv.T.S]; ok {
			fn = f
		}
	} else if mc, ok := cc.Value.(*ssa.MakeClosure); ok {
		for _, b := range mc.Bindings {
			bindings = append(bindings, fr.val(b))
		}
	} else if len(fn.FreeVars) > 0 {
		fv := fr.val(cc.Value)
		if ci, ok := fr.R.closures[fv.T.S]; ok {
			bindings = ci.bindings
		}
	}
	if fn == nil {
		if ci, _ := fr.rangeFuncYield(cc); ci != nil {
			return fr.rangeFuncCall(cc, ci, pos)
		}
		if c := fr.C; c != nil && c.Callees != nil {
			for _, n := range names {
				if cs, ok := c.Callees[n]; ok {
					fr.R.Trusted["assumed contract of dynamic callee "+n+" in "+shortName(c.Name)] = true
					return fr.applyContract(cs, nil, cc, args, pos)
				}
			}
		}
		fr.R.note("dynamic call of %s: heap havocked", strings.Join(names, "/"))
		return fr.havocCall(cc, args, true, pos)
	}
	if fr.R.action != nil && fn == fr.R.action {
		// the action under verification is always executed, never approximated
		if len(fn.FreeVars) != len(bindings) {
			fr.R.unsupported("action literal %s: captured variables not available", fn)
		}
		return fr.inlineCall(fn, args, bindings, pos)
	}
	if sk := fr.sortedKeysIdiom(fn, cc); sk != nil {
		return *sk
	}
	if lv := fr.lockCall(cc, pos); lv != nil {
		return *lv
	}
	if c := eng.ContractFor(fn); c != nil && !c.Inline && c.ModAll && len(c.Ensures) == 0 {
		// an iterator whose contract says nothing about its effect: the range-over-func model is more precise
		if ci, _ := fr.rangeFuncYield(cc); ci != nil {
			c.Used = true
			fr.noKeep = true
			fr.lockKeep = !eng.mayReachHolder(fn)
			v := fr.rangeFuncCall(cc, ci, pos)
			fr.noKeep, fr.lockKeep = false, false
			return v
		}
	}
	if c := eng.ContractFor(fn); c != nil && !c.Inline {
		var res Val
		if len(fn.FreeVars) > 0 && len(bindings) == len(fn.FreeVars) {
			res = fr.applyContractBound(c, fn, cc, args, bindings, pos)
		} else {
			res = fr.applyContract(c, fn, cc, args, pos)
		}
		if fn.String() == "fmt.Errorf" {
			fr.errorfWraps(cc, res)
		}
		return res
	}
	if special := fr.specialCall(fn, cc, args, pos); special != nil {
		return *special
	}
	if fr.canInline(fn, bindings) {
		return fr.inlineCall(fn, args, bindings, pos)
	}
	o := fr.fnOrigin(fn)
	inMod := o.Pkg != nil && eng.InModule(o.Pkg.Pkg)
	if inMod || (o.Pkg == nil && len(fn.Blocks) > 0 && fn.Parent() != nil) {
		if ci, _ := fr.rangeFuncYield(cc); ci != nil {
			// an iterator of the module that is not executed: treated like any other iterator
			fr.noKeep = true
			fr.lockKeep = !eng.mayReachHolder(o)
			v := fr.rangeFuncCall(cc, ci, pos)
			fr.noKeep, fr.lockKeep = false, false
			return v
		}
		fr.R.note("call of %s (no contract, not inlinable): heap havocked", fr.R.fnShort(o))
		// module code may touch monitor-protected state it is handed: nothing is preserved
		fr.noKeep = true
		fr.lockKeep = !eng.mayReachHolder(o)
		v := fr.havocCall(cc, args, true, pos)
		fr.noKeep = false
		fr.lockKeep = false
		return v
	}
	full := o.String()
	pkgPath := ""
	if o.Pkg != nil {
		pkgPath = o.Pkg.Pkg.Path()
	}
	if purePkgs[pkgPath] || pureFuncs[full] {
		fr.R.Trusted["pure library function (no heap effect assumed): "+full] = true
		return fr.havocCall(cc, args, false, pos)
	}
	fr.R.Trusted["A-FRAME: library function writes only library-owned state and what its arguments reach: "+full] = true
	fr.bumpTop()
	fr.havocExternal(cc, args)
	return fr.havocResult(cc, pos)
}

func (fr *Frame) argVals(as []ssa.Value) []Val {
	out := make([]Val, len(as))
	for i, a := range as {
		out[i] = fr.val(a)
	}
	return out
}

func (fr *Frame) bumpTop() {
	nt := fr.R.Sc.FreshConst("top", SInt)
	fr.R.Sc.Assume(Le(fr.st.top, nt))
	fr.st.top = nt
}

// havocResult returns unconstrained results of the call's signature.
func (fr *Frame) havocResult(cc *ssa.CallCommon, pos token.Pos) Val {
	sig := cc.Signature()
	n := sig.Results().Len()
	switch n {
	case 0:
		return Val{Tuple: []Val{}}
	case 1:
		return TV(fr.freshTyped("r", sig.Results().At(0).Type()))
	}
	out := Val{}
	for i := 0; i < n; i++ {
		out.Tuple = append(out.Tuple, TV(fr.freshTyped("r", sig.Results().At(i).Type())))
	}
	return out
}

func (fr *Frame) havocCall(cc *ssa.CallCommon, args []Val, heap bool, pos token.Pos) Val {
	fr.bumpTop()
	if heap {
		fr.havocAllHeap()
	}
	return fr.havocResult(cc, pos)
}

// havocExternal applies the A-FRAME effect of a library call without specification.
func (fr *Frame) havocExternal(cc *ssa.CallCommon, args []Val) {
	defer fr.keepOwnBoxes()()
	h := fr.R.Heap
	// (a) every field component of types declared outside the module
	for _, n := range h.Names() {
		if strings.HasPrefix(n, "F.") && !fr.moduleComp(n) {
			h.Havoc(fr.st, n)
		}
	}
	// (b) what the arguments reach, by type
	seen := map[string]bool{}
	all := false
	var visit func(t types.Type, depth int)
	visit = func(t types.Type, depth int) {
		t = types.Unalias(t)
		k := t.String()
		if seen[k] || depth > 6 {
			return
		}
		seen[k] = true
		switch u := t.Underlying().(type) {
		case *types.Pointer:
			el := types.Unalias(u.Elem())
			if st, ok := el.Underlying().(*types.Struct); ok {
				for i := 0; i < st.NumFields(); i++ {
					h.Havoc(fr.st, fieldComp(el, st.Field(i).Name()))
					visit(st.Field(i).Type(), depth+1)
				}
			} else {
				h.Havoc(fr.st, boxComp(el))
				visit(el, depth+1)
			}
		case *types.Slice:
			h.Havoc(fr.st, elemsComp(u.Elem()))
			visit(u.Elem(), depth+1)
		case *types.Map:
			h.Havoc(fr.st, mapDomComp(u))
			h.Havoc(fr.st, mapValComp(u))
			h.Havoc(fr.st, mapLenComp(u))
			visit(u.Elem(), depth+1)
		case *types.Struct:
			for i := 0; i < u.NumFields(); i++ {
				visit(u.Field(i).Type(), depth+1)
			}
		case *types.Interface:
			all = true
		case *types.Signature:
			all = true
		case *types.Chan:
			h.Havoc(fr.st, chanClosedComp)
		}
	}
	argVs := cc.Args
	for _, a := range argVs {
		if mi, ok := a.(*ssa.MakeInterface); ok {
			visit(mi.X.Type(), 0)
			continue
		}
		if isContextType(a.Type()) || isErrorType(a.Type()) {
			continue
		}
		visit(a.Type(), 0)
	}
	if all {
		// A-FRAME: library code reached through interface values or callbacks still does not write data of
		// module-declared types; everything else is forgotten
		for _, n := range h.Names() {
			if !fr.moduleOwnedComp(n) {
				h.Havoc(fr.st, n)
			}
		}
	}
}

// moduleOwnedComp: the component holds fields of a module-declared struct, or a map/slice/cell whose key or element
// type is declared in the module.
func (fr *Frame) moduleOwnedComp(name string) bool {
	if strings.HasPrefix(name, "F.") {
		return fr.moduleComp(name)
	}
	if name == chanClosedComp {
		return false
	}
	if strings.HasPrefix(name, "Ghost.") {
		return true // specification-only attributes change only where a contract says so
	}
	for key, p := range fr.R.Eng.TypePkgs {
		if !strings.HasPrefix(key, "name:") || !fr.R.Eng.InModule(p) {
			continue
		}
		if strings.Contains(name, p.Name()+".") {
			return true
		}
	}
	return false
}

func isContextType(t types.Type) bool {
	n, ok := types.Unalias(t).(*types.Named)
	return ok && n.Obj().Pkg() != nil && n.Obj().Pkg().Path() == "context" && n.Obj().Name() == "Context"
}

func isErrorType(t types.Type) bool {
	n, ok := types.Unalias(t).(*types.Named)
	return ok && n.Obj().Pkg() == nil && n.Obj().Name() == "error"
}

// moduleComp reports whether a field component belongs to a type declared in the module.
func (fr *Frame) moduleComp(name string) bool {
	// F.<pkgname>.<Type>.<field>
	parts := strings.SplitN(name, ".", 3)
	if len(parts) < 3 {
		return false
	}
	p := fr.R.Eng.TypePkgs["name:"+parts[1]]
	return p != nil && fr.R.Eng.InModule(p)
}

func (fr *Frame) canInline(fn *ssa.Function, bindings []Val) bool {
	if len(fn.Blocks) == 0 || fr.depth >= 5 {
		return false
	}
	if len(fn.FreeVars) != len(bindings) {
		return false
	}
	if fn.TypeParams().Len() > 0 || (fn.Origin() != nil && fn.Origin() != fn) {
		// generic code is abstracted, except a fully instantiated method the contract asks to see through
		// (`track f as x inline`)
		if !(len(fn.TypeArgs()) > 0 && fn.Origin() != fn && fr.trackedInline(fn)) {
			return false
		}
	}
	o := fn
	inMod := false
	for p := o; p != nil; p = p.Parent() {
		if p.Pkg != nil {
			inMod = fr.R.Eng.InModule(p.Pkg.Pkg)
			break
		}
	}
	if fn.Pkg == nil && fn.Parent() == nil {
		// synthetic wrappers ($bound, $thunk): inline if small
		inMod = true
	}
	if !inMod {
		return false
	}
	for _, f := range fr.R.inlineStack {
		if f == fn {
			return false
		}
	}
	if fn == fr.R.Fn {
		return false
	}
	if len(fn.Blocks) > 60 {
		return false
	}
	if fr.R.inlinedBlocks+len(fn.Blocks) > 600 && len(fn.Blocks) > 1 {
		// keep verification conditions small: beyond this budget callees are abstracted (havoc)
		return false
	}
	if c := fr.R.Contract; c != nil && len(fn.FreeVars) == 0 {
		// a callee the contract observes as an event is kept opaque
		names := []string{fn.Name(), fr.R.fnShort(fn)}
		if fn.Pkg != nil {
			names = append(names, fn.Pkg.Pkg.Name()+"."+fn.Name(), fn.RelString(fn.Pkg.Pkg))
		}
		for _, tr := range c.Tracks {
			if nameMatches(names, tr.Callee) && fn.Parent() == nil && !tr.Inline {
				return false
			}
		}
	}
	ci := analyzeCFG(fn)
	if len(ci.headers) > 0 {
		return false
	}
	return true
}

// trackedInline reports whether the contract of the function under verification names fn in a `track ... inline`.
func (fr *Frame) trackedInline(fn *ssa.Function) bool {
	c := fr.R.Contract
	if c == nil {
		return false
	}
	names := []string{fn.Name(), fr.R.fnShort(fn)}
	if o := fn.Origin(); o != nil {
		names = append(names, o.Name(), fr.R.fnShort(o))
	}
	for _, tr := range c.Tracks {
		if tr.Inline && nameMatches(names, tr.Callee) {
			return true
		}
	}
	return false
}

func (fr *Frame) inlineCall(fn *ssa.Function, args []Val, bindings []Val, pos token.Pos) Val {
	fr.R.Inlined[fr.R.fnShort(fn)] = true
	fr.R.inlinedBlocks += len(fn.Blocks)
	fr.R.frameN++
	nf := &Frame{R: fr.R, Fn: fn, env: map[ssa.Value]Val{}, depth: fr.depth + 1, names: map[string]Val{}, nameTys: map[string]types.Type{}, id: fr.R.frameN, loopsUsed: map[int]bool{}, parent: fr}
	for i, p := range fn.Params {
		if i < len(args) {
			nf.env[p] = args[i]
		}
	}
	for i, fv := range fn.FreeVars {
		nf.env[fv] = bindings[i]
	}
	fr.R.inlineStack = append(fr.R.inlineStack, fn)
	rg, out, results := nf.runBody(fr.st, fr.cur)
	fr.R.inlineStack = fr.R.inlineStack[:len(fr.R.inlineStack)-1]
	if os.Getenv("GOV_DEBUG_MERGE") != "" {
		_, has := out.heap["F.jsonrpc2.Connection.state"]
		fmt.Fprintf(os.Stderr, "INLINE %s: rets=%d out.epoch=%d hasState=%v rg=%s\n", fn.Name(), len(nf.rets), out.epoch, has, rg.S)
	}
	fr.st = out
	fr.cur = rg
	if rg.S == "false" {
		// callee never returns (always panics): results are irrelevant
		return fr.havocResultNoBump(fn.Signature)
	}
	switch len(results) {
	case 0:
		return Val{Tuple: []Val{}}
	case 1:
		return results[0]
	}
	return Val{Tuple: results}
}

func (fr *Frame) havocResultNoBump(sig *types.Signature) Val {
	n := sig.Results().Len()
	if n == 1 {
		return TV(fr.R.TM.Zero(sig.Results().At(0).Type()))
	}
	out := Val{Tuple: []Val{}}
	for i := 0; i < n; i++ {
		out.Tuple = append(out.Tuple, TV(fr.R.TM.Zero(sig.Results().At(i).Type())))
	}
	return out
}

// ctxHere is an evaluation context over the current state with the frame's entry names in scope.
func (fr *Frame) ctxHere() *EvalCtx {
	if r := fr.R; r.action != nil && fr.Fn == r.action && r.monVars != nil {
		vars := map[string]EV{}
		for k, v := range r.monVars {
			vars[k] = v
		}
		return &EvalCtx{fr: fr, st: fr.st, old: r.topFrame.entry, vars: vars, pkgPath: r.monitor.PkgPath, contract: r.Contract}
	}
	vars := map[string]EV{}
	for n, v := range fr.names {
		vars[n] = valToEV(v, fr.nameTys[n])
	}
	pkg := ""
	if fr.C != nil {
		pkg = fr.C.PkgPath
	} else if fr.Fn.Pkg != nil {
		pkg = fr.Fn.Pkg.Pkg.Path()
	}
	return &EvalCtx{fr: fr, st: fr.st, old: fr.entry, vars: vars, pkgPath: pkg, contract: fr.C}
}

// contractVars binds a callee contract's parameter names to the actual arguments.
func (fr *Frame) contractVars(c *Contract, fn *ssa.Function, cc *ssa.CallCommon, args []Val) map[string]EV {
	vars := map[string]EV{}
	if fn != nil && len(c.Params) == 0 {
		ps := fn.Params
		if o := fn.Origin(); o != nil && o != fn && len(o.Params) == len(fn.Params) {
			// names come from the generic origin; types from the call site
			ps = o.Params
		}
		for i, p := range ps {
			if i >= len(args) {
				break
			}
			ty := fn.Params[i].Type()
			ev := valToEV(args[i], ty)
			vars[p.Name()] = ev
			vars[fmt.Sprintf("$%d", i)] = ev
			if i < len(cc.Args) && !cc.IsInvoke() {
				if mi, ok := cc.Args[i].(*ssa.MakeInterface); ok {
					inner := EV{T: fr.termOf(fr.val(mi.X)), Ty: mi.X.Type()}
					vars[p.Name()+"!inner"] = inner
					vars[fmt.Sprintf("$%d!inner", i)] = inner
				}
			}
		}
		return vars
	}
	// interface method or explicit names
	var names []string
	var tys []types.Type
	if cc.IsInvoke() {
		names = append(names, "recv")
		tys = append(tys, cc.Value.Type())
		sig := cc.Method.Type().(*types.Signature)
		for i := 0; i < sig.Params().Len(); i++ {
			names = append(names, sig.Params().At(i).Name())
			tys = append(tys, cc.Args[i].Type())
		}
	} else {
		for i, a := range cc.Args {
			names = append(names, fmt.Sprintf("$%d", i))
			tys = append(tys, a.Type())
		}
	}
	for i := range names {
		if i < len(c.Params) {
			names[i] = c.Params[i]
		}
	}
	for i, a := range args {
		if i >= len(names) {
			break
		}
		ev := valToEV(a, tys[i])
		if names[i] != "" && names[i] != "_" {
			vars[names[i]] = ev
		}
		vars[fmt.Sprintf("$%d", i)] = ev
	}
	return vars
}

func (fr *Frame) applyContractBound(c *Contract, fn *ssa.Function, cc *ssa.CallCommon, args []Val, bindings []Val, pos token.Pos) Val {
	vars := fr.contractVars(c, fn, cc, args)
	for i, fv := range fn.FreeVars {
		// a free variable is the address of the captured variable; specs name the variable itself
		el := fv.Type().(*types.Pointer).Elem()
		b := bindings[i]
		vars["&"+fv.Name()] = valToEV(b, fv.Type())
		l := fr.locOf(b, el)
		vars[fv.Name()] = EV{T: fr.load(l), Ty: el}
	}
	return fr.applyContractVars(c, fn, cc, vars, bindings, pos)
}

func (fr *Frame) applyContract(c *Contract, fn *ssa.Function, cc *ssa.CallCommon, args []Val, pos token.Pos) Val {
	return fr.applyContractVars(c, fn, cc, fr.contractVars(c, fn, cc, args), nil, pos)
}

func (fr *Frame) applyContractVars(c *Contract, fn *ssa.Function, cc *ssa.CallCommon, vars map[string]EV, bindings []Val, pos token.Pos) Val {
	c.Used = true
	if c.Trusted {
		fr.R.Trusted["trusted contract: "+c.Key] = true
	} else if c.Abstract {
		fr.R.Trusted["interface-method contract (holds if every implementation's contract refines it): "+c.Key] = true
	} else {
		fr.R.UsedContracts[c.Key] = true
	}
	ctx := &EvalCtx{fr: fr, st: fr.st, vars: vars, pkgPath: c.PkgPath, contract: c}
	for _, rq := range c.Requires {
		if fr.R.Contract != nil && fr.R.Contract.Shell {
			// a critical-section unit without a contract of its own proves only the monitor's obligations
			if t, ok := ctx.tryBool(rq.E); ok {
				fr.assume(t)
			}
			continue
		}
		goal := Implies(fr.cur, ctx.Bool(rq.E))
		fr.R.addObl("requires@"+shortName(c.Name), rq.Label, goal, rq.Src, &rq, pos)
	}
	fr.checkHoldsAtCall(c, vars, pos)
	pre := fr.st.Clone()
	// objects the callee allocates lie above the caller's watermark
	fr.bumpTop()
	// effects
	switch {
	case c.ModAll:
		if fn != nil && !c.Trusted {
			fr.noKeep = true
			fr.lockKeep = !fr.R.Eng.mayReachHolder(fn)
		}
		fr.havocAllHeap()
		fr.noKeep = false
		fr.lockKeep = false
	default:
		if c.HavocExt {
			restore := fr.keepOwnBoxes()
			// what a held monitor protects is not touched by code that cannot take its lock
			held := map[string]bool{}
			if m := fr.R.monitor; m != nil && fr.st.held[m.Name] {
				for _, comp := range fr.R.protectedComps(fr, m) {
					held[comp] = true
				}
			}
			for _, comp := range fr.heldLockComps() {
				held[comp] = true
			}
			for _, n := range fr.R.Heap.Names() {
				if !fr.moduleOwnedComp(n) && !held[n] {
					fr.R.Heap.Havoc(fr.st, n)
				}
			}
			restore()
		}
		pctx := &EvalCtx{fr: fr, st: pre, vars: vars, pkgPath: c.PkgPath, contract: c}
		for _, m := range c.Modifies {
			fr.havocTarget(pctx, m)
		}
	}
	// a callee that takes a monitored mutex leaves the state it protects arbitrary (for callers not holding it)
	if fn != nil && !c.ModAll {
		for _, m := range fr.R.Eng.DB.Monitors {
			if m.Kind != "lock" || fr.st.locks[m.Name] != nil || !fr.R.Eng.isLockSection(m, fn) {
				continue
			}
			for _, comp := range fr.R.protectedComps(fr, m) {
				fr.R.Heap.Havoc(fr.st, comp)
				fr.R.lockTouched[comp] = true
			}
		}
	}
	// captured variables written by a closure callee are refreshed: the closure contract speaks for them
	if fn != nil && len(bindings) > 0 {
		for i, fv := range fn.FreeVars {
			if closureWrites(fn, fv) {
				el := fv.Type().(*types.Pointer).Elem()
				l := fr.locOf(bindings[i], el)
				fr.store(l, fr.freshTyped("cap."+fv.Name(), el))
			}
		}
	}
	sig := cc.Signature()
	var results []EV
	var resVals []Val
	for i := 0; i < sig.Results().Len(); i++ {
		rt := sig.Results().At(i).Type()
		t := fr.freshTyped("r."+shortName(c.Name), rt)
		results = append(results, EV{T: t, Ty: rt})
		resVals = append(resVals, TV(t))
	}
	post := &EvalCtx{fr: fr, st: fr.st, old: pre, vars: vars, pkgPath: c.PkgPath, contract: c, results: results}
	if fn != nil && len(bindings) > 0 {
		// post-state values of captured variables
		pv := map[string]EV{}
		for i, fv := range fn.FreeVars {
			el := fv.Type().(*types.Pointer).Elem()
			l := fr.locOf(bindings[i], el)
			pv[fv.Name()] = EV{T: fr.load(l), Ty: el}
		}
		post = post.with(pv)
		post.results = results
	}
	for _, en := range c.Ensures {
		if clauseIsInternal(c, en.E, 0) {
			// speaks about the callee's own call log / locals / snapshots: meaningless (and unsound to assume) at a call site
			continue
		}
		if t, ok := post.tryBool(en.E); ok {
			fr.assume(t)
		} else {
			fr.R.note("ensures '%s' of %s speaks about the callee's internal call log and is not used at call sites", en.Label, shortName(c.Name))
		}
	}
	switch len(resVals) {
	case 0:
		return Val{Tuple: []Val{}}
	case 1:
		return resVals[0]
	}
	return Val{Tuple: resVals}
}

func closureWrites(fn *ssa.Function, fv *ssa.FreeVar) bool {
	for _, ref := range *fv.Referrers() {
		switch r := ref.(type) {
		case *ssa.Store:
			if r.Addr == fv {
				return true
			}
		case *ssa.UnOp, *ssa.DebugRef:
		default:
			return true
		}
	}
	return false
}

func shortName(n string) string {
	if i := strings.LastIndex(n, "/"); i >= 0 {
		return n[i+1:]
	}
	return n
}

// havocTarget forgets the heap location(s) denoted by a modifies target, evaluated in the pre-state.
func (fr *Frame) havocTarget(ctx *EvalCtx, e Expr) {
	h := fr.R.Heap
	switch e := e.(type) {
	case ESel:
		if e.Sel == "*" {
			return
		}
		var x EV
		ctx.withFrameState(func() { x = ctx.eval(e.X) })
		p, ok := types.Unalias(x.Ty).Underlying().(*types.Pointer)
		if !ok {
			ctx.fail("modifies target %s: %s is not a pointer", ExprString(e), ExprString(e.X))
		}
		obj, path, _ := types.LookupFieldOrMethod(x.Ty, true, nil, e.Sel)
		if obj == nil {
			if n := namedOf(x.Ty); n != nil {
				obj, path, _ = types.LookupFieldOrMethod(x.Ty, true, n.Obj().Pkg(), e.Sel)
			}
		}
		if obj == nil {
			ctx.fail("modifies target %s: no such field", ExprString(e))
		}
		base := fr.locOf(Val{T: x.T, Loc: x.Loc}, p.Elem())
		if base.Kind == LBox {
			base = &Loc{Kind: LObj, Ref: base.Ref, Type: p.Elem()}
		}
		nl := *base
		nl.Path = append(append([]int{}, base.Path...), path...)
		fr.store(&nl, fr.freshTyped("mod."+e.Sel, obj.Type()))
		return
	case ECall:
		switch e.Fun {
		case "elems":
			var x EV
			ctx.withFrameState(func() { x = ctx.eval(e.Args[0]) })
			st := types.Unalias(x.Ty).Underlying().(*types.Slice)
			es := fr.R.TM.SortOf(st.Elem())
			name := elemsComp(st.Elem())
			arr := h.Get(fr.st, name, ArraySort(SInt, ArraySort(SInt, es)))
			h.Set(fr.st, name, fr.define("h", Store(arr, app(SInt, "s-arr", x.T), fr.R.Sc.FreshConst("row", ArraySort(SInt, es)))))
			return
		case "mapOf":
			var x EV
			ctx.withFrameState(func() { x = ctx.eval(e.Args[0]) })
			mt := types.Unalias(x.Ty).Underlying().(*types.Map)
			ks, vs := fr.mapSorts(mt)
			dn, vn := mapDomComp(mt), mapValComp(mt)
			d := h.Get(fr.st, dn, ArraySort(SInt, ArraySort(ks, SBool)))
			v := h.Get(fr.st, vn, ArraySort(SInt, ArraySort(ks, vs)))
			l := h.Get(fr.st, mapLenComp(mt), ArraySort(SInt, SInt))
			h.Set(fr.st, dn, fr.define("h", Store(d, x.T, fr.R.Sc.FreshConst("dom", ArraySort(ks, SBool)))))
			h.Set(fr.st, vn, fr.define("h", Store(v, x.T, fr.R.Sc.FreshConst("val", ArraySort(ks, vs)))))
			nl := fr.R.Sc.FreshConst("len", SInt)
			fr.R.Sc.Assume(Le(IntLit(0), nl))
			h.Set(fr.st, mapLenComp(mt), fr.define("h", Store(l, x.T, nl)))
			return
		case "fields":
			// fields(T.f): the whole field component
			for _, t := range ctx.heapCompNames("field " + typeExprString(e.Args[0])) {
				h.Havoc(fr.st, t)
			}
			return
		case "chanState":
			h.Havoc(fr.st, chanClosedComp)
			return
		case "ghostOf":
			var x EV
			ctx.withFrameState(func() { x = ctx.eval(e.Args[1]) })
			name := ghostComp(e.Args[0])
			arr := h.Get(fr.st, name, ArraySort(SInt, SBool))
			h.Set(fr.st, name, fr.define("h", Store(arr, ctx.term(x), fr.R.Sc.FreshConst("gh", SBool))))
			return
		case "ghosts":
			h.register(ghostComp(e.Args[0]), ArraySort(SInt, SBool))
			h.Havoc(fr.st, ghostComp(e.Args[0]))
			return
		case "allElems":
			ty, err := fr.R.Eng.ResolveType(typeExprString(e.Args[0]), ctx.pkgPath)
			if err != nil {
				ctx.fail("%v", err)
			}
			fr.R.Heap.NoteType(elemsComp(ty), ty)
			fr.R.Heap.register(elemsComp(ty), ArraySort(SInt, ArraySort(SInt, fr.R.TM.SortOf(ty))))
			h.Havoc(fr.st, elemsComp(ty))
			return
		case "reach":
			// everything reachable (by type) from the argument; for an interface-typed argument the static type
			// of the value boxed at the call site is used
			name := identName(e.Args[0])
			var ty types.Type
			if in, ok := ctx.vars[name+"!inner"]; ok {
				ty = in.Ty
			} else if v, ok := ctx.vars[name]; ok {
				ty = v.Ty
			}
			if ty == nil {
				ctx.fail("reach(%s): unknown argument", name)
			}
			if _, isIface := types.Unalias(ty).Underlying().(*types.Interface); isIface {
				fr.havocAllHeap()
				return
			}
			var root Term
			if in, ok := ctx.vars[name+"!inner"]; ok {
				root = in.T
			} else if v, ok := ctx.vars[name]; ok {
				root = v.T
			}
			fr.havocReach(ty, root)
			return
		case "all":
			var x EV
			ctx.withFrameState(func() { x = ctx.eval(e.Args[0]) })
			p, ok := types.Unalias(x.Ty).Underlying().(*types.Pointer)
			if !ok {
				ctx.fail("all(%s): not a pointer", ExprString(e.Args[0]))
			}
			st := types.Unalias(p.Elem()).Underlying().(*types.Struct)
			for i := 0; i < st.NumFields(); i++ {
				l := &Loc{Kind: LObj, Ref: x.T, Type: p.Elem(), Path: []int{i}}
				fr.store(l, fr.freshTyped("mod."+st.Field(i).Name(), st.Field(i).Type()))
			}
			return
		}
	case EIdent:
		if e.Name == "chanState" {
			fr.R.Heap.register(chanClosedComp, ArraySort(SInt, SBool))
			h.Havoc(fr.st, chanClosedComp)
			return
		}
		if v, ok := ctx.vars["&"+e.Name]; ok {
			el := v.Ty.(*types.Pointer).Elem()
			l := fr.locOf(Val{T: v.T, Loc: v.Loc}, el)
			fr.store(l, fr.freshTyped("mod."+e.Name, el))
			return
		}
	}
	if ec, ok := e.(ECall); ok && ec.Fun == "maps" {
		if comps, ok := fr.targetComps(e, map[string]types.Type{}, ctx.pkgPath); ok {
			for _, comp := range comps {
				h.Havoc(fr.st, comp)
			}
			return
		}
	}
	ctx.fail("unsupported modifies target %s", ExprString(e))
}

func (c *EvalCtx) heapCompNames(spec string) []string {
	before := map[string]bool{}
	for _, n := range c.fr.R.Heap.Names() {
		before[n] = true
	}
	parts := strings.Split(strings.TrimSpace(strings.TrimPrefix(spec, "field ")), ".")
	fname := parts[len(parts)-1]
	ty, err := c.fr.R.Eng.ResolveType(strings.Join(parts[:len(parts)-1], "."), c.pkgPath)
	if err != nil {
		c.fail("%v", err)
	}
	c.heapCompArgs(spec, c.pkgPath)
	return []string{fieldComp(ty, fname)}
}

// tryBool evaluates a clause; clauses that refer to call logs the current unit does not have are reported as unusable.
func (c *EvalCtx) tryBool(e Expr) (t Term, ok bool) {
	defer func() {
		if x := recover(); x != nil {
			if u, isU := x.(unsupportedErr); isU && (strings.Contains(u.msg, "no such tracked call") || strings.Contains(u.msg, "no local ") || strings.Contains(u.msg, "no snapshot ")) {
				ok = false
				return
			}
			panic(x)
		}
	}()
	return c.Bool(e), true
}

// reachComps lists the heap components reachable by type from a value of type t (interface-typed leaves excluded:
// decoders replace such values, they do not write through them).
func (fr *Frame) reachComps(t types.Type) []string {
	seen := map[string]bool{}
	var out []string
	var visit func(t types.Type, depth int)
	visit = func(t types.Type, depth int) {
		t = types.Unalias(t)
		k := t.String()
		if seen[k] || depth > 8 {
			return
		}
		seen[k] = true
		switch u := t.Underlying().(type) {
		case *types.Pointer:
			el := types.Unalias(u.Elem())
			if st, ok := el.Underlying().(*types.Struct); ok {
				if fr.isOpaqueStruct(el) {
					out = append(out, boxComp(el))
				}
				for i := 0; i < st.NumFields(); i++ {
					out = append(out, fieldComp(el, st.Field(i).Name()))
					visit(st.Field(i).Type(), depth+1)
				}
			} else {
				out = append(out, boxComp(el))
				visit(el, depth+1)
			}
		case *types.Slice:
			out = append(out, elemsComp(u.Elem()))
			visit(u.Elem(), depth+1)
		case *types.Map:
			out = append(out, mapDomComp(u), mapValComp(u), mapLenComp(u))
			visit(u.Elem(), depth+1)
		case *types.Struct:
			for i := 0; i < u.NumFields(); i++ {
				visit(u.Field(i).Type(), depth+1)
			}
		case *types.Chan:
			out = append(out, chanClosedComp)
		}
	}
	visit(t, 0)
	return out
}

// havocReach forgets what a callee may write through a pointer/slice/map argument: the pointee itself precisely,
// everything reachable beyond it by type.
func (fr *Frame) havocReach(ty types.Type, root Term) {
	h := fr.R.Heap
	deeper := func(t types.Type) {
		for _, comp := range fr.reachComps(t) {
			h.Havoc(fr.st, comp)
		}
	}
	switch u := types.Unalias(ty).Underlying().(type) {
	case *types.Pointer:
		el := types.Unalias(u.Elem())
		if st, ok := el.Underlying().(*types.Struct); ok && !fr.isOpaqueStruct(el) {
			for i := 0; i < st.NumFields(); i++ {
				l := &Loc{Kind: LObj, Ref: root, Type: el, Path: []int{i}}
				fr.store(l, fr.freshTyped("mod."+st.Field(i).Name(), st.Field(i).Type()))
				deeper(st.Field(i).Type())
			}
			return
		}
		l := fr.locOf(Val{T: root}, el)
		fr.store(l, fr.freshTyped("mod.pointee", el))
		deeper(el)
	default:
		deeper(ty)
	}
}

// errorfWraps adds the error-chain facts of fmt.Errorf with a constant format: the result wraps exactly the
// arguments at %w positions (errors.Is sees through them, and through nothing else).
func (fr *Frame) errorfWraps(cc *ssa.CallCommon, res Val) {
	c, ok := cc.Args[0].(*ssa.Const)
	if !ok || c.Value == nil {
		return
	}
	format := constantString(c)
	// verbs in order
	var wrapIdx []int
	n := 0
	for i := 0; i < len(format); i++ {
		if format[i] != '%' {
			continue
		}
		i++
		for i < len(format) && strings.ContainsRune("+-# 0123456789.[]*", rune(format[i])) {
			i++
		}
		if i >= len(format) {
			break
		}
		if format[i] == '%' {
			continue
		}
		if format[i] == 'w' {
			wrapIdx = append(wrapIdx, n)
		}
		n++
	}
	sc := fr.R.Sc
	sc.DeclareFun("sf.errIs", []Sort{SIface, SIface}, SBool)
	fr.R.Trusted["fmt.Errorf error-chain model: the result wraps exactly its %w arguments"] = true
	r := fr.termOf(res)
	var wrapped []Term
	if len(cc.Args) > 1 && len(wrapIdx) > 0 {
		va := fr.termOf(fr.val(cc.Args[1]))
		anyT := types.Universe.Lookup("any").Type()
		for _, wi := range wrapIdx {
			l := &Loc{Kind: LElem, Ref: app(SInt, "s-arr", va), Idx: Add(app(SInt, "s-off", va), IntLit(int64(wi))), Type: anyT}
			wrapped = append(wrapped, fr.load(l))
		}
	}
	t := fmt.Sprintf("t?%d", sc.n)
	sc.n++
	var ds []string
	ds = append(ds, fmt.Sprintf("(= %s %s)", t, r.S))
	for _, w := range wrapped {
		fr.assume(Implies(Not(Eq(app(SInt, "i-typ", w), IntLit(0))), app(SBool, "sf.errIs", r, w)))
		ds = append(ds, fmt.Sprintf("(sf.errIs %s %s)", w.S, t))
	}
	fr.assume(T(fmt.Sprintf("(forall ((%s Iface)) (! (= (sf.errIs %s %s) (or %s)) :pattern ((sf.errIs %s %s))))", t, r.S, t, strings.Join(ds, " "), r.S, t), SBool))
}

func constantString(c *ssa.Const) string {
	if c.Value == nil {
		return ""
	}
	s := c.Value.ExactString()
	if u, err := strconv.Unquote(s); err == nil {
		return u
	}
	return s
}

// sortedKeysIdiom models slices.Sorted(maps.Keys(m)): the strictly ascending list of exactly m's keys (trusted).
func (fr *Frame) sortedKeysIdiom(fn *ssa.Function, cc *ssa.CallCommon) *Val {
	o := fr.fnOrigin(fn)
	if o.String() != "slices.Sorted" || len(cc.Args) != 1 {
		return nil
	}
	inner, ok := cc.Args[0].(*ssa.Call)
	if !ok || inner.Call.StaticCallee() == nil || fr.fnOrigin(inner.Call.StaticCallee()).String() != "maps.Keys" {
		return nil
	}
	mv := inner.Call.Args[0]
	mt, ok := types.Unalias(mv.Type()).Underlying().(*types.Map)
	if !ok {
		return nil
	}
	ks, _ := fr.mapSorts(mt)
	m := fr.termOf(fr.val(mv))
	sc := fr.R.Sc
	fr.R.Trusted["slices.Sorted(maps.Keys(m)) is the strictly ascending list of exactly the keys of m"] = true
	fr.bumpTop()
	st := types.NewSlice(mt.Key())
	res := fr.freshTyped("sortedkeys", st)
	fr.R.Heap.NoteType(elemsComp(mt.Key()), mt.Key())
	E := fr.R.Heap.Get(fr.st, elemsComp(mt.Key()), ArraySort(SInt, ArraySort(SInt, ks)))
	row := fr.define("skrow", Select(E, app(SInt, "s-arr", res), ArraySort(SInt, ks)))
	off := app(SInt, "s-off", res)
	n := app(SInt, "s-len", res)
	dom := fr.define("skdom", fr.mapDom(m, mt))
	less := func(a, b string) string {
		name := "sf.before." + sanitize(sortKey(ks))
		sc.DeclareFun(name, []Sort{ks, ks}, SBool)
		return fmt.Sprintf("(%s %s %s)", name, a, b)
	}
	i, j, k := fmt.Sprintf("i?%d", sc.n), fmt.Sprintf("j?%d", sc.n+1), fmt.Sprintf("k?%d", sc.n+2)
	sc.n += 3
	// every listed key is a key of m
	fr.assume(T(fmt.Sprintf("(forall ((%s Int)) (! (=> (and (<= %s %s) (< %s (+ %s %s))) (select %s (select %s %s))) :pattern ((select %s %s))))", i, off.S, i, i, off.S, n.S, dom.S, row.S, i, row.S, i), SBool))
	// strictly ascending (absolute positions)
	fr.assume(T(fmt.Sprintf("(forall ((%s Int) (%s Int)) (! (=> (and (<= %s %s) (< %s %s) (< %s (+ %s %s))) %s) :pattern ((select %s %s) (select %s %s))))",
		i, j, off.S, i, i, j, j, off.S, n.S, less(fmt.Sprintf("(select %s %s)", row.S, i), fmt.Sprintf("(select %s %s)", row.S, j)), row.S, i, row.S, j), SBool))
	// every key of m is listed
	fr.assume(T(fmt.Sprintf("(forall ((%s %s)) (! (=> (select %s %s) (exists ((%s Int)) (and (<= %s %s) (< %s (+ %s %s)) (= (select %s %s) %s)))) :pattern ((select %s %s))))",
		k, ks, dom.S, k, i, off.S, i, i, off.S, n.S, row.S, i, k, dom.S, k), SBool))
	fr.assume(Implies(Eq(m, Nil), Eq(n, IntLit(0))))
	fr.assume(Eq(n, Ite(Eq(m, Nil), IntLit(0), fr.mapLen(m, mt))))
	// the result has a private backing array
	fr.assume(Implies(Lt(IntLit(0), n), Lt(fr.entryTop(), app(SInt, "s-arr", res))))
	v := TV(res)
	return &v
}

func (fr *Frame) entryTop() Term {
	if fr.R.topFrame != nil && fr.R.topFrame.entry != nil {
		return fr.R.topFrame.entry.top
	}
	return IntLit(0)
}

// clauseIsInternal: the clause mentions the unit's internal call log, ghost variables, locals or snapshots.
func clauseIsInternal(c *Contract, e Expr, depth int) bool {
	if depth > 8 {
		return true
	}
	switch e := e.(type) {
	case EIdent:
		for _, gv := range c.GhostVars {
			if gv.Name == e.Name {
				return true
			}
		}
		for _, g := range c.Ghosts {
			if g.Name == e.Name {
				return clauseIsInternal(c, g.E, depth+1)
			}
		}
		return false
	case EUn:
		return clauseIsInternal(c, e.X, depth)
	case EBin:
		return clauseIsInternal(c, e.X, depth) || clauseIsInternal(c, e.Y, depth)
	case ECall:
		switch e.Fun {
		case "calls", "callResult", "callArg", "lastResult", "at", "reached", "local", "held":
			return true
		}
		for _, a := range e.Args {
			if clauseIsInternal(c, a, depth) {
				return true
			}
		}
	case ESel:
		return clauseIsInternal(c, e.X, depth)
	case EIndex:
		return clauseIsInternal(c, e.X, depth) || clauseIsInternal(c, e.I, depth)
	case ESlice:
		return clauseIsInternal(c, e.X, depth) || (e.Lo != nil && clauseIsInternal(c, e.Lo, depth)) || (e.Hi != nil && clauseIsInternal(c, e.Hi, depth))
	case ECond:
		return clauseIsInternal(c, e.C, depth) || clauseIsInternal(c, e.A, depth) || clauseIsInternal(c, e.B, depth)
	case EQuant:
		return clauseIsInternal(c, e.Body, depth)
	case ETypeAssert:
		return clauseIsInternal(c, e.X, depth)
	}
	return false
}

// isUnitCode: this frame executes the unit under verification, its action literal, or a function literal nested in them.
func (fr *Frame) isUnitCode() bool {
	r := fr.R
	for f := fr.Fn; f != nil; f = f.Parent() {
		if f == r.Fn || (r.action != nil && f == r.action) {
			return true
		}
	}
	return false
}
