package gov

import (
	"encoding/json"
	"fmt"
	"os"
	"path/filepath"
	"sort"
	"strings"
	"sync"
	"time"
)

type CheckOpts struct {
	Prop     string
	Tier     string
	RepoDir  string
	VerifDir string
	Seed     int
	Overlay  map[string][]byte
	Only     string // restrict to contracts whose key contains this
	Quiet    bool
	NoEvid   bool
	OutDir   string
	Fast     bool // selftest mode: short solver limits, no retry
}

type CheckReport struct {
	Prop        string
	Units       []*FnRun
	Results     []*Result
	Covers      []*Result
	Violations  []Violation
	Known       []string
	Broken      []string // machinery errors (exit 2)
	Wall        float64
	Obligations int
	Discharged  int
	// thorough tier: sensitivity of the check (its must-fail / must-stay-green mutants re-run)
	MutantsRun      int
	MutantsAsExpect int
	MutantDetails   []string
}

type Violation struct {
	Obligation string
	Replay     *ReplayOutcome
	Reason     string
	HasInput   bool
}

// PackagesWithContracts finds the module packages that carry a contracts_verif.go file.
func PackagesWithContracts(repo string, overlay map[string][]byte) []string {
	var out []string
	seen := map[string]bool{}
	filepath.Walk(repo, func(p string, info os.FileInfo, err error) error {
		if err != nil {
			return nil
		}
		if info.IsDir() && (info.Name() == ".git" || info.Name() == "examples" || info.Name() == "testdata") {
			return filepath.SkipDir
		}
		if !info.IsDir() && info.Name() == "contracts_verif.go" {
			rel, _ := filepath.Rel(repo, filepath.Dir(p))
			if !seen[rel] {
				seen[rel] = true
				out = append(out, "./"+rel)
			}
		}
		return nil
	})
	for p := range overlay {
		if filepath.Base(p) == "contracts_verif.go" {
			rel, _ := filepath.Rel(repo, filepath.Dir(p))
			if !seen[rel] {
				seen[rel] = true
				out = append(out, "./"+rel)
			}
		}
	}
	sort.Strings(out)
	return out
}

func hasProp(props []string, p string) bool {
	for _, x := range props {
		if x == p {
			return true
		}
	}
	return false
}

// RunCheck generates and discharges all obligations of one property.
func RunCheck(o CheckOpts) (*CheckReport, error) {
	t0 := time.Now()
	rep := &CheckReport{Prop: o.Prop}
	pats := PackagesWithContracts(o.RepoDir, o.Overlay)
	if len(pats) == 0 {
		return nil, fmt.Errorf("no contracts_verif.go found under %s", o.RepoDir)
	}
	eng, err := Load(o.RepoDir, filepath.Join(o.VerifDir, "specs"), pats, o.Overlay)
	if err != nil {
		return nil, err
	}
	var cs []*Contract
	for _, k := range sortedKeys(eng.DB.Contracts) {
		c := eng.DB.Contracts[k]
		if c.Trusted || c.Abstract || !hasProp(c.Props, o.Prop) {
			continue
		}
		if o.Only != "" && !strings.Contains(c.Key, o.Only) {
			continue
		}
		cs = append(cs, c)
	}
	// function literals that are monitor actions are verified through their monitor, not on their own
	actionOf := map[string]*Monitor{}
	type actionJob struct {
		m   *Monitor
		lit string
	}
	var actions []actionJob
	// lock-style monitors: every function that locks the mutex is a unit (own contract, or an empty one)
	for _, m := range eng.DB.Monitors {
		if m.Kind != "lock" || !hasProp(m.Props, o.Prop) || m.DisciplineOnly {
			continue
		}
		for _, fn := range eng.LockSections(m) {
			if containsStr(m.TrustSections, fn.String()) {
				continue
			}
			if o.Only != "" && !strings.Contains(fn.String(), o.Only) {
				continue
			}
			already := false
			for _, c := range cs {
				if c.Key == fn.String() {
					already = true
				}
			}
			if already {
				continue
			}
			if c := eng.ContractFor(fn); c != nil && !c.Trusted && !c.Abstract {
				cs = append(cs, c)
				continue
			}
			cs = append(cs, &Contract{Key: fn.String(), Name: shortName(fn.String()), PkgPath: m.PkgPath, File: m.File, Line: m.Line,
				Loops: map[int][]Clause{}, ModAll: true, Props: []string{o.Prop}, Shell: true})
		}
	}
	for _, m := range eng.DB.Monitors {
		if m.Kind == "lock" {
			continue
		}
		lits := eng.ActionLiterals(m)
		for _, l := range lits {
			actionOf[l.String()] = m
		}
		if hasProp(m.Props, o.Prop) {
			for _, l := range lits {
				if o.Only == "" || strings.Contains(l.String(), o.Only) {
					actions = append(actions, actionJob{m, l.String()})
				}
			}
		}
	}
	var cs2 []*Contract
	for _, c := range cs {
		if _, isAction := actionOf[c.Key]; !isAction {
			cs2 = append(cs2, c)
		}
	}
	cs = cs2
	units := make([]*FnRun, len(cs)+len(actions))
	var wg sync.WaitGroup
	sem := make(chan struct{}, 8)
	for i, c := range cs {
		wg.Add(1)
		sem <- struct{}{}
		go func(i int, c *Contract) {
			defer wg.Done()
			defer func() { <-sem }()
			units[i] = eng.VerifyUnit(c)
		}(i, c)
	}
	for i, a := range actions {
		wg.Add(1)
		sem <- struct{}{}
		go func(i int, a actionJob) {
			defer wg.Done()
			defer func() { <-sem }()
			units[len(cs)+i] = eng.VerifyAction(a.m, eng.FnByName[a.lit])
		}(i, a)
	}
	wg.Wait()
	for _, m := range eng.DB.Monitors {
		if hasProp(m.Props, o.Prop) && o.Only == "" {
			if m.Kind == "lock" {
				u := eng.LockDisciplineUnit(m)
				for _, ts := range m.TrustSections {
					u.Trusted["monitor "+m.Name+": critical sections of "+shortName(ts)+" are not verified"] = true
				}
				units = append(units, u)
			} else {
				units = append(units, eng.DisciplineUnit(m))
			}
		}
	}
	// raw SMT lemmas of this property (specs/lemmas/<prop>-*.smt2)
	if o.Only == "" {
		if raw := rawLemmaUnit(eng, o); raw != nil {
			units = append(units, raw)
		}
	}
	// lemmas of this property
	lem := eng.VerifyLemmas(o.Prop)
	if lem != nil {
		units = append(units, lem)
	}
	rep.Units = units
	var obls []*Obligation
	var covers []*Cover
	for _, u := range units {
		obls = append(obls, u.Obls...)
		covers = append(covers, u.Covers...)
		for _, msg := range u.Unsupported {
			rep.Violations = append(rep.Violations, Violation{Obligation: u.fnShortSafe() + "#unsupported", Reason: "obligations could not be generated: " + msg})
		}
	}
	outDir := o.OutDir
	if outDir == "" {
		outDir = filepath.Join(o.VerifDir, "out", o.Prop)
	}
	os.RemoveAll(outDir)
	timeout := 10
	race := true
	if o.Tier == "thorough" {
		timeout = 60
		race = false
	}
	workers := 12
	if o.Fast {
		timeout = 6
		workers = 6
	}
	knownNames := map[string]bool{}
	for _, k := range LoadKnownFindings(filepath.Join(o.VerifDir, "known-findings.jsonl")).list {
		if k.Status == "known" && k.Property == o.Prop {
			knownNames[k.Obligation] = true
		}
	}
	res, cres := DischargeAll(obls, covers, DischargeOpts{OutDir: outDir, TimeoutS: timeout, Race: race, Workers: workers, NoRetry: o.Fast, Known: knownNames})
	rep.Results, rep.Covers = res, cres
	rep.Obligations = len(res)
	for _, r := range res {
		if r.Disagree {
			rep.Broken = append(rep.Broken, "solvers disagree on "+r.Obl.Name)
		}
		switch r.Status {
		case "proved":
			rep.Discharged++
		default:
			v := Violation{Obligation: r.Obl.Name}
			switch r.Status {
			case "failed":
				v.Reason = "refuted (solver found a counter-model)"
			case "undecided":
				v.Reason = "not discharged (unknown/timeout)"
			default:
				v.Reason = "solver error"
			}
			rep.Violations = append(rep.Violations, v)
		}
	}
	for _, r := range cres {
		if r.Status == "unsat" {
			rep.Broken = append(rep.Broken, fmt.Sprintf("vacuity cover %s is unsat (contradictory assumptions)", r.Cover.Name))
		}
	}
	for _, u := range units {
		if len(u.Obls) == 0 && len(u.Unsupported) == 0 && u.Contract != nil && (len(u.Contract.Ensures) > 0) {
			rep.Broken = append(rep.Broken, "no obligations generated for "+u.fnShortSafe())
		}
	}
	if len(units) == 0 {
		rep.Broken = append(rep.Broken, "no contract carries property "+o.Prop)
	}
	rep.Wall = time.Since(t0).Seconds()
	return rep, nil
}

func (r *FnRun) fnShortSafe() string {
	if r.action != nil {
		return r.fnShort(r.action)
	}
	if r.Fn != nil {
		return r.fnShort(r.Fn)
	}
	if r.Contract != nil {
		return strings.ReplaceAll(r.Contract.Key, ModulePath+"/", "")
	}
	return "?"
}

// WriteReplay writes the replay file of a failed obligation and returns its path.
func WriteReplay(dir string, prop string, v *Violation, r *Result) string {
	os.MkdirAll(dir, 0o755)
	path := filepath.Join(dir, sanitizeFile(v.Obligation)+".replay.json")
	m := map[string]any{"property": prop, "obligation": v.Obligation, "reason": v.Reason}
	if v.Replay != nil {
		m["replayed_on_real_code"] = map[string]any{"reproduced": v.Replay.Reproduced, "input_from_model": v.Replay.Values, "driver": v.Replay.TestFile,
			"note": v.Replay.Note, "go_test_output": v.Replay.Output}
	} else {
		m["replayed_on_real_code"] = "no replay driver for this obligation, or the solver gave no model"
	}
	if r != nil {
		m["smt_file"] = r.File
		m["contract_clause"] = r.Obl.Src
		m["contract_file"] = fmt.Sprintf("%s:%d", r.Obl.File, r.Obl.Line)
		m["generated_at"] = r.Obl.Where
		var outs []map[string]any
		for _, a := range r.All {
			out := a.Output
			if len(out) > 20000 {
				out = out[:20000] + "...(truncated)"
			}
			outs = append(outs, map[string]any{"solver": a.Solver, "status": a.Status, "time_s": a.Time, "output": out})
		}
		m["solver_runs"] = outs
	}
	b, _ := json.MarshalIndent(m, "", " ")
	os.WriteFile(path, b, 0o644)
	return path
}

// Evidence writes /verif/evidence/<prop>.json.
func WriteEvidence(o CheckOpts, rep *CheckReport, violations int, known []string) error {
	trusted := map[string]bool{}
	notes := map[string]bool{}
	var fns []string
	inlined := map[string]bool{}
	for _, u := range rep.Units {
		t, n, in := u.Summary()
		for _, x := range t {
			trusted[x] = true
		}
		for _, x := range n {
			notes[x] = true
		}
		for _, x := range in {
			inlined[x] = true
		}
		fns = append(fns, u.fnShortSafe())
	}
	trusted["the VC generator itself (go/ssa NaiveForm -> SMT-LIB), go/ssa, and the SMT solvers"] = true
	trusted["machine integers: int/int64 modelled exactly with wrap-around; strings as SMT strings (byte = code point < 256)"] = true
	var samples []any
	perSolver := map[string]int{}
	var solverTime float64
	var oblList []map[string]any
	for i, r := range rep.Results {
		perSolver[r.Solver]++
		solverTime += r.Time
		ob := map[string]any{"name": r.Obl.Name, "kind": r.Obl.Kind, "status": r.Status, "solver": r.Solver, "time_s": round3(r.Time), "smt_bytes": r.Size}
		oblList = append(oblList, ob)
		if i < 4 || r.Status != "proved" {
			samples = append(samples, map[string]any{"obligation": r.Obl.Name, "clause": r.Obl.Src, "generated_at": r.Obl.Where, "status": r.Status, "solver": r.Solver, "time_s": round3(r.Time), "smt_bytes": r.Size})
		}
	}
	var coverList []map[string]any
	for _, r := range rep.Covers {
		coverList = append(coverList, map[string]any{"name": r.Cover.Name, "status": r.Status, "solver": r.Solver})
	}
	if len(samples) == 0 {
		samples = append(samples, "no obligations")
	}
	explanation := fmt.Sprintf("%d obligations were generated from the current tree and %d discharged.", rep.Obligations, rep.Discharged)
	if len(known) > 0 {
		explanation += fmt.Sprintf(" %d further obligation(s) are refuted or undischarged and listed in /verif/known-findings.jsonl: they are NOT part of what is claimed as proved and are excluded from 'obligations' (see known_findings).", len(known))
	}
	cov := map[string]any{
		"obligations":              rep.Obligations - len(known),
		"discharged":               rep.Discharged,
		"obligations_generated":    rep.Obligations,
		"known_finding_obligations": len(known),
		"explanation":              explanation,
		"checker_cmd":              fmt.Sprintf("/verif/check %s --tier %s  (gov: go/ssa VC generation; z3 5.1.0, z3 4.8.12, cvc5 1.0.3 raced per obligation)", o.Prop, o.Tier),
		"trusted_base":             setList(trusted),
		"samples":                  samples,
		"functions_under_contract": fns,
		"inlined_callees":          setList(inlined),
		"abstractions_applied":     setList(notes),
		"obligation_list":          oblList,
		"covers":                   coverList,
		"by_solver":                perSolver,
		"solver_time_s":            round3(solverTime),
		"known_findings":           known,
		"sensitivity_mutants_run":          rep.MutantsRun,
		"sensitivity_mutants_as_expected":  rep.MutantsAsExpect,
		"sensitivity_mutants":              rep.MutantDetails,
		"machinery_errors":         rep.Broken,
	}
	ev := map[string]any{
		"property_id": o.Prop,
		"tier":        o.Tier,
		"seed":        o.Seed,
		"level":       "proof",
		"coverage":    cov,
		"assumptions": setList(trusted),
		"wall_s":      round3(rep.Wall),
		"violations":  violations,
	}
	b, err := json.MarshalIndent(ev, "", " ")
	if err != nil {
		return err
	}
	dir := filepath.Join(o.VerifDir, "evidence")
	os.MkdirAll(dir, 0o755)
	return os.WriteFile(filepath.Join(dir, o.Prop+".json"), b, 0o644)
}

func round3(f float64) float64 { return float64(int(f*1000+0.5)) / 1000 }

func setList(m map[string]bool) []string {
	out := make([]string, 0, len(m))
	for k := range m {
		out = append(out, k)
	}
	sort.Strings(out)
	return out
}

// rawLemmaUnit loads hand-written SMT-LIB lemma scripts (used where the fact is about a theory the VC generator
// does not model, e.g. IEEE floating point). Header: "; obligation: <name>".
func rawLemmaUnit(eng *Engine, o CheckOpts) *FnRun {
	if o.Overlay != nil {
		// a mutant run (selftest): the lemma scripts do not depend on the source under test, so a source mutation can
		// neither break nor repair them; they are decided by every real check run
		return nil
	}
	files, _ := filepath.Glob(filepath.Join(o.VerifDir, "specs", "lemmas", o.Prop+"-*.smt2"))
	if len(files) == 0 {
		return nil
	}
	sort.Strings(files)
	r := eng.NewRun(nil, nil)
	r.lemmaRun = true
	for _, f := range files {
		b, err := os.ReadFile(f)
		if err != nil {
			r.Unsupported = append(r.Unsupported, err.Error())
			continue
		}
		name := filepath.Base(f)
		for _, line := range strings.Split(string(b), "\n") {
			if strings.HasPrefix(line, "; obligation:") {
				name = strings.TrimSpace(strings.TrimPrefix(line, "; obligation:"))
			}
		}
		r.Obls = append(r.Obls, &Obligation{Name: name, Kind: "lemma", Raw: string(b), Src: "raw SMT lemma " + f, File: f, Fn: "lemmas", Script: r.Sc})
		r.Trusted["raw lemma "+filepath.Base(f)+": the SMT text is hand-written (it states a fact about IEEE-754 conversion, not about Go code)"] = true
	}
	return r
}
