package gov

import (
	"fmt"
	"go/token"
	"go/types"
	"sort"
	"strings"

	"golang.org/x/tools/go/ssa"
)

func (r *FnRun) useSpecFun(sf *SpecFun) {
	if sf.Body == nil {
		r.SpecFuns[sf.Name] = true
	}
}

// evalEntry evaluates a clause over the entry state of the unit.
func (r *FnRun) evalEntry(e Expr) Term {
	fr := r.topFrame
	ctx := fr.ctxHere()
	ctx.st = fr.entry
	return ctx.Bool(e)
}

func (fr *Frame) checkDiscipline(l *Loc, pos token.Pos, write bool) {
	fr.R.checkMonitorAccess(fr, l, pos, write)
}

// VerifyUnit generates the obligations of one function under contract.
func (e *Engine) VerifyUnit(c *Contract) (r *FnRun) {
	fn := e.FindFunc(c.Key)
	r = e.NewRun(fn, c)
	if fn == nil {
		r.Unsupported = append(r.Unsupported, fmt.Sprintf("contract %s (%s:%d) binds to no function", c.Key, c.File, c.Line))
		return r
	}
	defer func() {
		if x := recover(); x != nil {
			if u, ok := x.(unsupportedErr); ok {
				r.Unsupported = append(r.Unsupported, u.msg)
				return
			}
			panic(x)
		}
	}()
	r.Sc.Comment("unit " + fn.String())
	st := &State{regs: map[*ssa.Alloc]Term{}, heap: map[string]Term{}, ghost: map[string]Term{}, held: map[string]bool{}, vol: map[string]bool{}}
	st.top = r.Sc.Declare("top0", SInt)
	r.Sc.Assume(Le(IntLit(0), st.top))
	fr := &Frame{R: r, Fn: fn, C: c, env: map[ssa.Value]Val{}, names: map[string]Val{}, nameTys: map[string]types.Type{}, top: true, loopsUsed: map[int]bool{}}
	r.topFrame = fr
	fr.st = st
	fr.cur = True
	for _, p := range fn.Params {
		t := r.Sc.Declare("p."+sanitize(p.Name()), r.TM.SortOf(p.Type()))
		fr.typeFacts(t, p.Type())
		fr.env[p] = TV(t)
		fr.names[p.Name()] = TV(t)
		fr.nameTys[p.Name()] = p.Type()
	}
	for _, fv := range fn.FreeVars {
		// the free variable is the address of a captured cell
		t := r.Sc.Declare("fv."+sanitize(fv.Name()), SInt)
		fr.typeFacts(t, fv.Type())
		r.Sc.Assume(Lt(IntLit(0), t))
		fr.env[fv] = TV(t)
		fr.names["&"+fv.Name()] = TV(t)
		fr.nameTys["&"+fv.Name()] = fv.Type()
	}
	// distinct captured cells of the same sort
	for i, a := range fn.FreeVars {
		for _, b := range fn.FreeVars[i+1:] {
			ea, eb := a.Type().(*types.Pointer).Elem(), b.Type().(*types.Pointer).Elem()
			if r.TM.SortOf(ea) == r.TM.SortOf(eb) {
				r.Sc.Assume(Not(Eq(fr.termOf(fr.env[a]), fr.termOf(fr.env[b]))))
			}
		}
	}
	for _, fv := range fn.FreeVars {
		el := fv.Type().(*types.Pointer).Elem()
		l := fr.locOf(fr.env[fv], el)
		fr.names[fv.Name()] = TV(fr.load(l))
		fr.nameTys[fv.Name()] = el
	}
	fr.entry = st.Clone()
	r.assertAxioms(fr)
	ctx := fr.ctxHere()
	// package invariants over package-level variables
	if fn.Pkg != nil {
		isInit := fn.Name() == "init"
		if !isInit {
			for _, gi := range e.DB.GlobalInvs[pkgOf(fn).Path()] {
				fr.assume(ctx.Bool(gi.E))
				r.Trusted["A-GLOBAL: package-level variables are assigned only in init (checked syntactically) and their slices/maps are not mutated: "+gi.Src] = true
			}
		}
	}
	for _, rq := range c.Requires {
		fr.assume(ctx.Bool(rq.E))
	}
	r.addCover("requires-satisfiable", True)
	fr.entry = fr.st.Clone()
	retGuard, out, results := fr.runBody(fr.st, True)
	if retGuard.S == "false" {
		// no normal return
		out = fr.entry
	}
	// ensures
	sig := fn.Signature
	var res []EV
	for i, v := range results {
		res = append(res, valToEV(v, sig.Results().At(i).Type()))
	}
	fr.st = out
	fr.cur = retGuard
	post := fr.ctxHere()
	post.st = out
	post.old = fr.entry
	post.results = res
	// named results
	if sig.Results() != nil {
		nv := map[string]EV{}
		for i := 0; i < sig.Results().Len() && i < len(res); i++ {
			if n := sig.Results().At(i).Name(); n != "" && n != "_" {
				if _, clash := fr.names[n]; !clash {
					nv[n] = res[i]
				}
			}
		}
		post = post.with(nv)
		post.results = res
	}
	// post-state value of captured variables: name' is not expressible; use post(name)
	for _, en := range c.Ensures {
		goal := Implies(retGuard, post.Bool(en.E))
		r.addObl("ensures", en.Label, goal, en.Src, &en, fn.Pos())
	}
	if len(c.Ensures) > 0 {
		r.addCover("returns-reachable", retGuard)
	}
	for ord := range c.Loops {
		if !fr.loopsUsed[ord] {
			r.Unsupported = append(r.Unsupported, fmt.Sprintf("contract %s: loop %d does not exist in the function (%s:%d)", c.Name, ord, c.File, c.Line))
		}
	}
	r.checkMonitorsAtExit(fr, retGuard)
	return r
}

func pkgOf(fn *ssa.Function) *types.Package {
	for f := fn; f != nil; f = f.Parent() {
		if f.Pkg != nil {
			return f.Pkg.Pkg
		}
	}
	return nil
}

// ---------- hooks filled in by monitor.go ----------

func (fr *Frame) specialCall(fn *ssa.Function, cc *ssa.CallCommon, args []Val, pos token.Pos) *Val {
	return fr.R.monitorCall(fr, fn, cc, args, pos)
}

// Summary lists what a run used, for evidence.
func (r *FnRun) Summary() (trusted, notes, inlined []string) {
	for k := range r.Trusted {
		trusted = append(trusted, k)
	}
	for k := range r.Notes {
		notes = append(notes, k)
	}
	for k := range r.Inlined {
		inlined = append(inlined, k)
	}
	for k := range r.SpecFuns {
		trusted = append(trusted, "uninterpreted specification function: "+k)
	}
	sort.Strings(trusted)
	sort.Strings(notes)
	sort.Strings(inlined)
	return
}

func containsAny(s string, subs ...string) bool {
	for _, x := range subs {
		if strings.Contains(s, x) {
			return true
		}
	}
	return false
}
