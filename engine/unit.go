package gov

import (
	"fmt"
	"go/token"
	"go/types"
	"sort"
	"strings"

	"golang.org/x/tools/go/ssa"
)

func (r *FnRun) useSpecFun(sf *SpecFun) {
	if sf.Body == nil {
		r.SpecFuns[sf.Name] = true
	}
}

// evalEntry evaluates a clause over the entry state of the unit.
func (r *FnRun) evalEntry(e Expr) Term {
	fr := r.topFrame
	ctx := fr.ctxHere()
	ctx.st = fr.entry
	return ctx.Bool(e)
}

func (fr *Frame) checkDiscipline(l *Loc, pos token.Pos, write bool) {
	fr.R.checkMonitorAccess(fr, l, pos, write)
}

// VerifyUnit generates the obligations of one function under contract.
func (e *Engine) VerifyUnit(c *Contract) (r *FnRun) {
	fn := e.FindFunc(c.Key)
	r = e.NewRun(fn, c)
	if fn == nil {
		r.Unsupported = append(r.Unsupported, fmt.Sprintf("contract %s (%s:%d) binds to no function", c.Key, c.File, c.Line))
		return r
	}
	defer func() {
		if x := recover(); x != nil {
			if u, ok := x.(unsupportedErr); ok {
				r.Unsupported = append(r.Unsupported, u.msg)
				return
			}
			panic(x)
		}
	}()
	r.Sc.Comment("unit " + fn.String())
	r.inInit = fn.Name() == "init" && fn.Parent() == nil && fn.Signature.Recv() == nil
	st := &State{regs: map[*ssa.Alloc]Term{}, heap: map[string]Term{}, ghost: map[string]Term{}, held: map[string]bool{}, vol: map[string]bool{}}
	st.top = r.Sc.Declare("top0", SInt)
	r.Sc.Assume(Le(IntLit(0), st.top))
	fr := &Frame{R: r, Fn: fn, C: c, env: map[ssa.Value]Val{}, names: map[string]Val{}, nameTys: map[string]types.Type{}, top: true, loopsUsed: map[int]bool{}}
	r.topFrame = fr
	fr.st = st
	fr.cur = True
	for _, p := range fn.Params {
		t := r.Sc.Declare("p."+sanitize(p.Name()), r.TM.SortOf(p.Type()))
		fr.typeFacts(t, p.Type())
		fr.env[p] = TV(t)
		fr.names[p.Name()] = TV(t)
		fr.nameTys[p.Name()] = p.Type()
	}
	for _, fv := range fn.FreeVars {
		// the free variable is the address of a captured cell
		t := r.Sc.Declare("fv."+sanitize(fv.Name()), SInt)
		fr.typeFacts(t, fv.Type())
		r.Sc.Assume(Lt(IntLit(0), t))
		fr.env[fv] = TV(t)
		fr.names["&"+fv.Name()] = TV(t)
		fr.nameTys["&"+fv.Name()] = fv.Type()
	}
	// distinct captured cells of the same sort
	for i, a := range fn.FreeVars {
		for _, b := range fn.FreeVars[i+1:] {
			ea, eb := a.Type().(*types.Pointer).Elem(), b.Type().(*types.Pointer).Elem()
			if r.TM.SortOf(ea) == r.TM.SortOf(eb) {
				r.Sc.Assume(Not(Eq(fr.termOf(fr.env[a]), fr.termOf(fr.env[b]))))
			}
		}
	}
	for i, fv := range fn.FreeVars {
		el := fv.Type().(*types.Pointer).Elem()
		l := fr.locOf(fr.env[fv], el)
		v := fr.load(l)
		fr.names[fv.Name()] = TV(v)
		fr.nameTys[fv.Name()] = el
		if immutableCapture(fn, i) {
			// never reassigned after the closure was created: no call can change it
			r.constCells[fr.termOf(fr.env[fv]).S] = v
		} else if containsStr(c.ConstCaptures, fv.Name()) {
			r.constCells[fr.termOf(fr.env[fv]).S] = v
			r.Trusted["captured variable "+fv.Name()+" of "+c.Name+" is not assigned while the function runs (declared constant)"] = true
		}
	}
	fr.entry = st.Clone()
	r.preRegisterTracks(fr)
	r.assertAxioms(fr)
	ctx := fr.ctxHere()
	// package invariants over package-level variables
	fr.assumeGlobalInvs()
	for _, rq := range c.Requires {
		fr.assume(ctx.Bool(rq.E))
	}
	for _, as := range c.Assumes {
		fr.assume(ctx.Bool(as.E))
		r.Trusted["assumption of "+c.Name+": "+as.Src] = true
	}
	for _, gv := range c.GhostVars {
		v := ctx.Eval(gv.Init)
		fr.st.ghost["gv."+gv.Name] = ctx.term(v)
	}
	r.addCover("requires-satisfiable", True)
	r.enterHolds(fr, c)
	fr.entry = fr.st.Clone()
	retGuard, out, results := fr.runBody(fr.st, True)
	if retGuard.S == "false" {
		// no normal return
		out = fr.entry
	}
	// ensures
	sig := fn.Signature
	var res []EV
	for i, v := range results {
		res = append(res, valToEV(v, sig.Results().At(i).Type()))
	}
	fr.st = out
	fr.cur = retGuard
	post := fr.ctxHere()
	post.st = out
	post.old = fr.entry
	post.results = res
	// named results
	if sig.Results() != nil {
		nv := map[string]EV{}
		for i := 0; i < sig.Results().Len() && i < len(res); i++ {
			if n := sig.Results().At(i).Name(); n != "" && n != "_" {
				if _, clash := fr.names[n]; !clash {
					nv[n] = res[i]
				}
			}
		}
		post = post.with(nv)
		post.results = res
	}
	// post-state value of captured variables: name' is not expressible; use post(name)
	for _, en := range c.Ensures {
		t, ok := post.tryBool(en.E)
		if !ok {
			// the clause speaks about a call (or local, or snapshot) the function no longer has: it cannot hold
			r.addObl("ensures", en.Label, Not(retGuard), en.Src+"   [cannot be evaluated on this code: a tracked call, local or snapshot it names does not exist any more]", &en, fn.Pos())
			continue
		}
		r.addObl("ensures", en.Label, Implies(retGuard, t), en.Src, &en, fn.Pos())
	}
	if len(c.Ensures) > 0 {
		r.addCover("returns-reachable", retGuard)
	}
	// Vacuity guard for call logs: a tracked callee that has a call site in this code but for which no call was ever
	// logged (the call sits in code the engine abstracted away) makes every clause over its log vacuous.
	{
		seen := map[string]bool{}
		for _, tr := range c.Tracks {
			if r.staticAlias[tr.Alias] && !r.loggedAlias[tr.Alias] && !seen[tr.Alias] {
				seen[tr.Alias] = true
				r.addObl("vacuity", "the-tracked-call-"+tr.Alias+"-is-executed", False, "track "+tr.Callee+" as "+tr.Alias+"   [the callee has a call site in this function, but the symbolic execution never reached it: clauses over calls("+tr.Alias+") would be vacuous]", nil, fn.Pos())
			}
		}
	}
	for ord := range c.Loops {
		if !fr.loopsUsed[ord] {
			r.Unsupported = append(r.Unsupported, fmt.Sprintf("contract %s: loop %d does not exist in the function (%s:%d)", c.Name, ord, c.File, c.Line))
		}
	}
	for _, cname := range r.lockCoverOrd {
		// a Lock site is covered if some execution of it (there is one per return path for deferred code) is reachable
		r.addCover(cname, r.lockCovers[cname])
	}
	r.checkMonitorsAtExit(fr, retGuard)
	if retGuard.S != "false" {
		r.checkFrame(fr, out, retGuard)
	}
	if r.inInit {
		r.checkGlobalImmutability(fr)
	}
	return r
}

// exprMentions reports whether a specification expression names the identifier.
func exprMentions(e Expr, name string) bool {
	switch e := e.(type) {
	case EIdent:
		return e.Name == name
	case EUn:
		return exprMentions(e.X, name)
	case EBin:
		return exprMentions(e.X, name) || exprMentions(e.Y, name)
	case ECall:
		for _, a := range e.Args {
			if exprMentions(a, name) {
				return true
			}
		}
	case ESel:
		return exprMentions(e.X, name)
	case EIndex:
		return exprMentions(e.X, name) || exprMentions(e.I, name)
	case ESlice:
		return exprMentions(e.X, name) || (e.Lo != nil && exprMentions(e.Lo, name)) || (e.Hi != nil && exprMentions(e.Hi, name))
	case ECond:
		return exprMentions(e.C, name) || exprMentions(e.A, name) || exprMentions(e.B, name)
	case EQuant:
		return exprMentions(e.Body, name)
	case ETypeAssert:
		return exprMentions(e.X, name)
	}
	return false
}

// checkGlobalInvAtStore: inside the package initializer, every package invariant that names g must hold right
// after g is assigned.
func (fr *Frame) checkGlobalInvAtStore(g *ssa.Global, pos token.Pos) {
	r := fr.R
	for _, gi := range r.Eng.DB.GlobalInvs[g.Pkg.Pkg.Path()] {
		if !exprMentions(gi.E, g.Name()) {
			continue
		}
		ctx := fr.ctxHere()
		goal := Implies(fr.cur, ctx.Bool(gi.E))
		cl := gi
		r.addObl("global-inv", gi.Label+"@"+g.Name(), goal, gi.Src, &cl, pos)
		r.globalsChecked[g.Name()] = true
	}
}

// checkGlobalImmutability is the frame condition behind package invariants: a variable named in one is assigned
// exactly once (in init) and the value read from it is only indexed, measured, ranged over, compared, or passed
// to library functions known not to write or retain their argument.
func (r *FnRun) checkGlobalImmutability(fr *Frame) {
	pkg := pkgOf(r.Fn)
	sp := r.Eng.Prog.Package(pkg)
	for _, gi := range r.Eng.DB.GlobalInvs[pkg.Path()] {
		for name, m := range sp.Members {
			g, ok := m.(*ssa.Global)
			if !ok || !exprMentions(gi.E, name) {
				continue
			}
			var bad []string
			stores := 0
			refLike := false
			switch types.Unalias(g.Type().(*types.Pointer).Elem()).Underlying().(type) {
			case *types.Slice, *types.Map, *types.Pointer:
				refLike = true
			}
			for _, fn := range r.Eng.FnByName {
				if pkgOf(fn) != pkg {
					continue
				}
				for _, b := range fn.Blocks {
					for _, in := range b.Instrs {
						for _, op := range in.Operands(nil) {
							if *op != ssa.Value(g) {
								continue
							}
							switch in := in.(type) {
							case *ssa.Store:
								if in.Addr == g {
									stores++
									if fn != r.Fn {
										bad = append(bad, "assigned in "+r.fnShort(fn))
									}
								} else {
									bad = append(bad, "address stored in "+r.fnShort(fn))
								}
							case *ssa.UnOp:
								if !refLike {
									// a copied scalar/interface value cannot be used to change the variable
									continue
								}
								if why := escapingUse(in, 0); why != "" {
									bad = append(bad, why+" in "+r.fnShort(fn)+" at "+r.pos(in.Pos()))
								}
							case *ssa.DebugRef:
							default:
								bad = append(bad, fmt.Sprintf("address used by %T in %s", in, r.fnShort(fn)))
							}
						}
					}
				}
			}
			if stores != 1 {
				bad = append(bad, fmt.Sprintf("assigned %d times", stores))
			}
			goal := True
			src := "package variable " + name + " is assigned once in init and never mutated or aliased"
			if len(bad) > 0 {
				goal = False
				sort.Strings(bad)
				src += ": " + strings.Join(bad, "; ")
			}
			cl := gi
			r.addObl("frame", "global-immutable:"+name, goal, src, &cl, g.Pos())
		}
	}
}

// localLiteralReadOnly: a composite literal built in place whose only use is to be handed (by value, boxed in an
// interface) to a library function that reads it.
func localLiteralReadOnly(a *ssa.Alloc) bool {
	for _, r := range *a.Referrers() {
		switch r := r.(type) {
		case *ssa.FieldAddr:
			for _, r2 := range *r.Referrers() {
				if st, ok := r2.(*ssa.Store); !ok || st.Addr != r {
					if _, isDbg := r2.(*ssa.DebugRef); !isDbg {
						return false
					}
				}
			}
		case *ssa.UnOp:
			for _, r2 := range *r.Referrers() {
				switch r2 := r2.(type) {
				case *ssa.MakeInterface:
					for _, r3 := range *r2.Referrers() {
						c, ok := r3.(*ssa.Call)
						if !ok || c.Common().StaticCallee() == nil || !readOnlyCallees[c.Common().StaticCallee().String()] {
							if _, isDbg := r3.(*ssa.DebugRef); !isDbg {
								return false
							}
						}
					}
				case *ssa.DebugRef:
				default:
					return false
				}
			}
		case *ssa.DebugRef:
		default:
			return false
		}
	}
	return true
}

var readOnlyCallees = map[string]bool{
	"encoding/json.Marshal": true,
	"slices.Contains": true, "slices.Clone": true, "slices.Index": true, "slices.Equal": true, "strings.Join": true,
	"slices.BinarySearch": true, "fmt.Sprintf": true, "fmt.Errorf": true, "slices.IndexFunc": true,
}

// escapingUse classifies the uses of a value read from a protected package variable.
func escapingUse(v ssa.Value, depth int) string {
	if v.Referrers() == nil {
		return ""
	}
	for _, ref := range *v.Referrers() {
		switch ref := ref.(type) {
		case *ssa.DebugRef:
		case *ssa.IndexAddr:
			// element address: may only be loaded
			for _, r2 := range *ref.Referrers() {
				switch r2 := r2.(type) {
				case *ssa.UnOp, *ssa.DebugRef:
				default:
					return fmt.Sprintf("element address used by %T", r2)
				}
			}
		case *ssa.Index, *ssa.Lookup, *ssa.Range:
		case *ssa.BinOp:
		case *ssa.Store:
			if ref.Val == v {
				// a copy into a local variable is followed; anything else is an alias
				if a, ok := ref.Addr.(*ssa.Alloc); ok && isRegisterAlloc(a) && depth < 3 {
					for _, r2 := range *a.Referrers() {
						if ld, ok := r2.(*ssa.UnOp); ok {
							if why := escapingUse(ld, depth+1); why != "" {
								return why
							}
						}
					}
					continue
				}
				if fa, ok := ref.Addr.(*ssa.FieldAddr); ok {
					if a, ok := fa.X.(*ssa.Alloc); ok && localLiteralReadOnly(a) {
						continue
					}
				}
				return "value stored (aliased)"
			}
		case *ssa.Call:
			cc := ref.Common()
			if b, ok := cc.Value.(*ssa.Builtin); ok && (b.Name() == "len" || b.Name() == "cap") {
				continue
			}
			if fn := cc.StaticCallee(); fn != nil {
				o := fn
				if fn.Origin() != nil {
					o = fn.Origin()
				}
				if readOnlyCallees[o.String()] {
					continue
				}
				return "passed to " + o.String()
			}
			return "passed to a dynamic call"
		default:
			return fmt.Sprintf("used by %T", ref)
		}
	}
	return ""
}

func pkgOf(fn *ssa.Function) *types.Package {
	for f := fn; f != nil; f = f.Parent() {
		if f.Pkg != nil {
			return f.Pkg.Pkg
		}
	}
	return nil
}

// ---------- hooks filled in by monitor.go ----------

func (fr *Frame) specialCall(fn *ssa.Function, cc *ssa.CallCommon, args []Val, pos token.Pos) *Val {
	return fr.R.monitorCall(fr, fn, cc, args, pos)
}

// Summary lists what a run used, for evidence.
func (r *FnRun) Summary() (trusted, notes, inlined []string) {
	for k := range r.Trusted {
		trusted = append(trusted, k)
	}
	for k := range r.Notes {
		notes = append(notes, k)
	}
	for k := range r.Inlined {
		inlined = append(inlined, k)
	}
	for k := range r.SpecFuns {
		trusted = append(trusted, "uninterpreted specification function: "+k)
	}
	sort.Strings(trusted)
	sort.Strings(notes)
	sort.Strings(inlined)
	return
}

func containsAny(s string, subs ...string) bool {
	for _, x := range subs {
		if strings.Contains(s, x) {
			return true
		}
	}
	return false
}

// checkFrame: the heap components that differ from the entry state at exit must be covered by the contract's
// modifies clause (objects allocated by the function itself are exempt).
type frameAllow struct {
	whole bool
	idx   []Term
}

// frameInfo evaluates the contract's modifies clause once (in the entry state).
func (r *FnRun) frameInfo(fr *Frame) (allowed map[string]*frameAllow, allowAll bool) {
	if r.frameAllowed != nil {
		return r.frameAllowed, r.frameAll
	}
	c := r.Contract
	allowed = map[string]*frameAllow{}
	add := func(comp string, idx Term, whole bool) {
		if comp == "*" {
			allowAll = true
			return
		}
		a := allowed[comp]
		if a == nil {
			a = &frameAllow{}
			allowed[comp] = a
		}
		if whole {
			a.whole = true
		} else {
			a.idx = append(a.idx, idx)
		}
	}
	entry := fr.entry
	ctx := fr.ctxHere()
	ctx.st = entry
	saved, savedCur := fr.st, fr.cur
	fr.st = entry
	for _, m := range c.Modifies {
		r.modTargets(fr, ctx, m, add)
	}
	fr.st, fr.cur = saved, savedCur
	if c.HavocExt {
		for _, n := range r.Heap.Names() {
			if !fr.moduleOwnedComp(n) {
				add(n, Term{}, true)
			}
		}
	}
	r.frameAllowed, r.frameAll = allowed, allowAll
	return
}

// frameFormula: component name holds, in version ft, the entry values everywhere outside the modifies clause
// (objects allocated since entry are exempt). ok=false when the whole component may change.
func (r *FnRun) frameFormula(fr *Frame, name string, ft Term) (Term, bool) {
	allowed, allowAll := r.frameInfo(fr)
	if allowAll {
		return True, false
	}
	a := allowed[name]
	if a != nil && a.whole {
		return True, false
	}
	sort := r.Heap.sorts[name]
	et := r.Heap.Get(fr.entry, name, sort)
	if ft.S == et.S {
		return True, true
	}
	if !strings.HasPrefix(string(sort), "(Array Int ") {
		return Eq(ft, et), true
	}
	i := fmt.Sprintf("fi?%d", r.Sc.n)
	r.Sc.n++
	var ds []string
	ds = append(ds, fmt.Sprintf("(> %s %s)", i, fr.entry.top.S), fmt.Sprintf("(<= %s 0)", i))
	if a != nil {
		for _, ix := range a.idx {
			ds = append(ds, fmt.Sprintf("(= %s %s)", i, ix.S))
		}
	}
	ds = append(ds, fmt.Sprintf("(= (select %s %s) (select %s %s))", ft.S, i, et.S, i))
	return T(fmt.Sprintf("(forall ((%s Int)) (! (or %s) :pattern ((select %s %s))))", i, strings.Join(ds, " "), ft.S, i), SBool), true
}

// checkFrame: the heap components that differ from the entry state at exit must be covered by the contract's
// modifies clause (objects allocated by the function itself are exempt).
func (r *FnRun) checkFrame(fr *Frame, out *State, retGuard Term) {
	c := r.Contract
	if c == nil || c.ModAll || r.inInit {
		return
	}
	entry := fr.entry
	_, allowAll := r.frameInfo(fr)
	if allowAll {
		return
	}
	if out.epoch != entry.epoch {
		r.addObl("frame", "calls-uncontracted-code", False, "the function reaches code without a contract (whole heap havocked) but its contract has no 'modifies *'", nil, fr.Fn.Pos())
		return
	}
	for _, name := range sortedKeys(out.heap) {
		if r.lockTouched[name] {
			continue // protected by a monitored mutex this unit took: the environment may change it
		}
		if c.HavocExt && !fr.moduleOwnedComp(name) {
			continue // 'modifies extern': everything that is not data of module-declared types
		}
		f, ok := r.frameFormula(fr, name, out.heap[name])
		if !ok || f.S == "true" {
			continue
		}
		r.addObl("frame", name, Implies(retGuard, f), "only what 'modifies' lists may differ from the entry state: "+name, nil, fr.Fn.Pos())
	}
}

// modTargets maps a modifies target to (component, index) pairs.
func (r *FnRun) modTargets(fr *Frame, ctx *EvalCtx, e Expr, add func(comp string, idx Term, whole bool)) {
	switch e := e.(type) {
	case ESel:
		x := ctx.Eval(e.X)
		p, ok := types.Unalias(x.Ty).Underlying().(*types.Pointer)
		if !ok {
			ctx.fail("modifies target %s: not a pointer", ExprString(e))
		}
		_, path, _ := types.LookupFieldOrMethod(x.Ty, true, nil, e.Sel)
		if path == nil {
			if n := namedOf(x.Ty); n != nil {
				_, path, _ = types.LookupFieldOrMethod(x.Ty, true, n.Obj().Pkg(), e.Sel)
			}
		}
		if path == nil {
			ctx.fail("modifies target %s: no such field", ExprString(e))
		}
		st := types.Unalias(p.Elem()).Underlying().(*types.Struct)
		base := fr.locOf(Val{T: x.T, Loc: x.Loc}, p.Elem())
		bt := p.Elem()
		first := path[0]
		if len(base.Path) > 0 {
			bt = base.Type
			st = types.Unalias(bt).Underlying().(*types.Struct)
			first = base.Path[0]
		}
		add(fieldComp(bt, st.Field(first).Name()), base.Ref, false)
	case ECall:
		switch e.Fun {
		case "elems":
			x := ctx.Eval(e.Args[0])
			st := types.Unalias(x.Ty).Underlying().(*types.Slice)
			add(elemsComp(st.Elem()), app(SInt, "s-arr", x.T), false)
		case "mapOf":
			x := ctx.Eval(e.Args[0])
			mt := types.Unalias(x.Ty).Underlying().(*types.Map)
			add(mapDomComp(mt), x.T, false)
			add(mapValComp(mt), x.T, false)
			add(mapLenComp(mt), x.T, false)
		case "fields":
			for _, n := range ctx.heapCompNames("field " + typeExprString(e.Args[0])) {
				add(n, Term{}, true)
			}
		case "chanState":
			add(chanClosedComp, Term{}, true)
		case "ghostOf":
			x := ctx.Eval(e.Args[1])
			add(ghostComp(e.Args[0]), ctx.term(x), false)
		case "ghosts":
			add(ghostComp(e.Args[0]), Term{}, true)
		case "allElems":
			ty, err := r.Eng.ResolveType(typeExprString(e.Args[0]), ctx.pkgPath)
			if err != nil {
				ctx.fail("%v", err)
			}
			add(elemsComp(ty), Term{}, true)
		case "all":
			x := ctx.Eval(e.Args[0])
			p := types.Unalias(x.Ty).Underlying().(*types.Pointer)
			st := types.Unalias(p.Elem()).Underlying().(*types.Struct)
			for i := 0; i < st.NumFields(); i++ {
				add(fieldComp(p.Elem(), st.Field(i).Name()), x.T, false)
			}
		case "reach":
			name := identName(e.Args[0])
			v, ok := ctx.vars[name]
			if !ok {
				ctx.fail("reach(%s): unknown parameter", name)
			}
			if _, isIface := types.Unalias(v.Ty).Underlying().(*types.Interface); isIface {
				add("*", Term{}, true)
				return
			}
			switch u := types.Unalias(v.Ty).Underlying().(type) {
			case *types.Pointer:
				el := types.Unalias(u.Elem())
				if st, ok := el.Underlying().(*types.Struct); ok && !fr.isOpaqueStruct(el) {
					for i := 0; i < st.NumFields(); i++ {
						add(fieldComp(el, st.Field(i).Name()), v.T, false)
						for _, comp := range fr.reachComps(st.Field(i).Type()) {
							add(comp, Term{}, true)
						}
					}
				} else {
					add(boxComp(el), v.T, false)
					for _, comp := range fr.reachComps(el) {
						add(comp, Term{}, true)
					}
				}
			default:
				for _, comp := range fr.reachComps(v.Ty) {
					add(comp, Term{}, true)
				}
			}
		case "maps":
			if comps, ok := fr.targetComps(e, map[string]types.Type{}, ctx.pkgPath); ok {
				for _, comp := range comps {
					add(comp, Term{}, true)
				}
				return
			}
			ctx.fail("unsupported modifies target %s", ExprString(e))
		default:
			ctx.fail("unsupported modifies target %s", ExprString(e))
		}
	case EIdent:
		if e.Name == "chanState" {
			add(chanClosedComp, Term{}, true)
			return
		}
		if v, ok := ctx.vars["&"+e.Name]; ok {
			el := v.Ty.(*types.Pointer).Elem()
			add(boxComp(el), v.T, false)
			return
		}
		ctx.fail("unsupported modifies target %s", ExprString(e))
	default:
		ctx.fail("unsupported modifies target %s", ExprString(e))
	}
}

// immutableCapture reports whether the i-th captured variable of closure fn is assigned at most once (its
// initialisation in the enclosing function) and never written by any closure sharing it.
func immutableCapture(fn *ssa.Function, i int) bool {
	parent := fn.Parent()
	if parent == nil {
		return false
	}
	var bound ssa.Value
	for _, b := range parent.Blocks {
		for _, in := range b.Instrs {
			if mc, ok := in.(*ssa.MakeClosure); ok && mc.Fn == fn && i < len(mc.Bindings) {
				bound = mc.Bindings[i]
			}
		}
	}
	var mcInstr *ssa.MakeClosure
	for _, b := range parent.Blocks {
		for _, in := range b.Instrs {
			if mc, ok := in.(*ssa.MakeClosure); ok && mc.Fn == fn {
				mcInstr = mc
			}
		}
	}
	switch bv := bound.(type) {
	case *ssa.Alloc:
		stores := 0
		for _, ref := range *bv.Referrers() {
			switch r := ref.(type) {
			case *ssa.Store:
				if r.Addr != bv {
					return false
				}
				if mcInstr != nil && storePrecedes(r, mcInstr) {
					// assigned before the closure exists (and never again afterwards): does not count
					continue
				}
				stores++
			case *ssa.UnOp, *ssa.DebugRef:
			case *ssa.MakeClosure:
				cf := r.Fn.(*ssa.Function)
				for j, b := range r.Bindings {
					if b == bv && freeVarWritten(cf, j) {
						return false
					}
				}
			default:
				return false
			}
		}
		return stores == 0 || (stores <= 1 && mcInstr == nil)
	case *ssa.FreeVar:
		for j, fv := range parent.FreeVars {
			if fv == bv {
				if freeVarWrittenShallow(parent, j) {
					return false
				}
				return immutableCapture(parent, j)
			}
		}
	}
	return false
}

func freeVarWrittenShallow(fn *ssa.Function, j int) bool {
	fv := fn.FreeVars[j]
	for _, ref := range *fv.Referrers() {
		switch r := ref.(type) {
		case *ssa.Store:
			return true
		case *ssa.UnOp, *ssa.DebugRef, *ssa.MakeClosure:
			_ = r
		default:
			return true
		}
	}
	return false
}

// freeVarWritten: the closure (or a closure nested in it) may assign the captured variable.
func freeVarWritten(fn *ssa.Function, j int) bool {
	fv := fn.FreeVars[j]
	for _, ref := range *fv.Referrers() {
		switch r := ref.(type) {
		case *ssa.Store:
			return true
		case *ssa.UnOp, *ssa.DebugRef:
		case *ssa.MakeClosure:
			cf := r.Fn.(*ssa.Function)
			for k, b := range r.Bindings {
				if b == ssa.Value(fv) && freeVarWritten(cf, k) {
					return true
				}
			}
		default:
			return true
		}
	}
	return false
}

// preRegisterTracks records the types of the values logged for tracked callees, from the call sites in the body
// (so that a specification may mention a call log before the first call has been executed symbolically).
func (r *FnRun) preRegisterTracks(fr *Frame) {
	r.preRegisterTracksIn(fr, fr.Fn)
}

func (r *FnRun) preRegisterTracksIn(fr *Frame, root *ssa.Function) {
	c := r.Contract
	if c == nil || len(c.Tracks) == 0 {
		return
	}
	var visit func(fn *ssa.Function, depth int)
	visit = func(fn *ssa.Function, depth int) {
		for _, b := range fn.Blocks {
			for _, in := range b.Instrs {
				var cc *ssa.CallCommon
				switch in := in.(type) {
				case *ssa.Call:
					cc = &in.Call
				case *ssa.Go:
					cc = &in.Call
				case *ssa.Defer:
					cc = &in.Call
				}
				if cc == nil {
					continue
				}
				if _, isB := cc.Value.(*ssa.Builtin); isB {
					continue
				}
				names := fr.calleeNames(cc)
				for _, tr := range c.Tracks {
					if !nameMatches(names, tr.Callee) {
						continue
					}
					if r.staticAlias == nil {
						r.staticAlias = map[string]bool{}
					}
					// only call sites the symbolic execution must reach count: the body itself and the bodies of its
					// range-over-func loops (a literal started with go, deferred or handed to a library may never run inline)
					if _, isGo := in.(*ssa.Go); !isGo && (fn == root || fn == fr.Fn || fn.Synthetic == "range-over-func yield") {
						r.staticAlias[tr.Alias] = true
					}
					sig := cc.Signature()
					for n := 1; n <= 2; n++ {
						for i := 0; i < sig.Results().Len(); i++ {
							key := fmt.Sprintf("res.%s.%d.%d", tr.Alias, n, i)
							if _, ok := r.trackTypes[key]; !ok {
								r.trackTypes[key] = sig.Results().At(i).Type()
							}
						}
						na := len(cc.Args)
						if cc.IsInvoke() {
							na++
						}
						for k := 0; k < na; k++ {
							key := fmt.Sprintf("arg.%s.%d.%d", tr.Alias, n, k)
							if _, ok := r.trackTypes[key]; !ok {
								r.trackTypes[key] = fr.argType(cc, k)
							}
						}
					}
					for i := 0; i < sig.Results().Len(); i++ {
						key := fmt.Sprintf("last.%s.%d", tr.Alias, i)
						if _, ok := r.trackTypes[key]; !ok {
							r.trackTypes[key] = sig.Results().At(i).Type()
						}
					}
				}
			}
		}
	}
	var deep func(fn *ssa.Function, depth int)
	deep = func(fn *ssa.Function, depth int) {
		visit(fn, depth)
		if depth < 3 {
			// bodies of range-over-func loops (and other literals executed inline) log into the same call log
			for _, af := range fn.AnonFuncs {
				deep(af, depth+1)
			}
		}
	}
	deep(root, 0)
	if root != fr.Fn {
		deep(fr.Fn, 0)
	}
}

// storePrecedes: the store is executed before the closure is created on every path and cannot be reached again
// afterwards (its block dominates the closure's block and is not reachable from it).
func storePrecedes(st *ssa.Store, mc *ssa.MakeClosure) bool {
	sb, cb := st.Block(), mc.Block()
	if sb == cb {
		si, ci := -1, -1
		for i, in := range sb.Instrs {
			if in == ssa.Instruction(st) {
				si = i
			}
			if in == ssa.Instruction(mc) {
				ci = i
			}
		}
		if si > ci {
			return false
		}
	}
	// not reachable again from the closure's block
	seen := map[*ssa.BasicBlock]bool{}
	stack := append([]*ssa.BasicBlock{}, cb.Succs...)
	for len(stack) > 0 {
		b := stack[len(stack)-1]
		stack = stack[:len(stack)-1]
		if seen[b] {
			continue
		}
		seen[b] = true
		if b == sb {
			return false
		}
		stack = append(stack, b.Succs...)
	}
	return true
}

// assumeGlobalInvs assumes the package invariants (of the unit's package and of the packages it imports) in the current
// state. They hold in every state after package initialisation: the variables they name are assigned only in init and
// what they hold is never mutated or aliased (A-GLOBAL; checked by the frame obligation of the init unit), so the
// engine states them again after forgetting the heap (a loop head, a call of unknown code).
func (fr *Frame) assumeGlobalInvs() {
	r := fr.R
	e := r.Eng
	fn := r.Fn
	if fn == nil || fn.Pkg == nil {
		return
	}
	ctx := fr.ctxHere()
	isInit := fn.Name() == "init" && fn.Signature.Recv() == nil
	if !isInit {
		for _, gi := range e.DB.GlobalInvs[pkgOf(fn).Path()] {
			if t, ok := ctx.tryBool(gi.E); ok {
				fr.assume(t)
				r.Trusted["A-GLOBAL: package-level variables are assigned only in init (checked syntactically) and their slices/maps are not mutated: "+gi.Src] = true
			}
		}
	}
	// invariants of the packages this one imports (their initialisers ran first; each is proved in its own init unit)
	imported := map[string]bool{}
	var walk func(p *types.Package)
	walk = func(p *types.Package) {
		for _, q := range p.Imports() {
			if !imported[q.Path()] {
				imported[q.Path()] = true
				walk(q)
			}
		}
	}
	walk(pkgOf(fn))
	for _, path := range sortedKeys(e.DB.GlobalInvs) {
		if !imported[path] {
			continue
		}
		octx := fr.ctxHere()
		octx.pkgPath = path
		for _, gi := range e.DB.GlobalInvs[path] {
			if t, ok := octx.tryBool(gi.E); ok {
				fr.assume(t)
				r.Trusted["A-GLOBAL ("+path+"): "+gi.Src] = true
			}
		}
	}
}
