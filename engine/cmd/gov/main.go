package main

import (
	"encoding/json"
	"flag"
	"fmt"
	"os"
	"path/filepath"
	"regexp"
	"sort"
	"strconv"

	gov "gov"
)

func main() {
	if len(os.Args) < 2 {
		fmt.Fprintln(os.Stderr, "usage: gov check <prop> [--tier quick|thorough]")
		os.Exit(2)
	}
	switch os.Args[1] {
	case "check":
		os.Exit(check(os.Args[2:]))
	case "selftest":
		os.Exit(selftest(os.Args[2:]))
	default:
		fmt.Fprintln(os.Stderr, "unknown command", os.Args[1])
		os.Exit(2)
	}
}

func check(args []string) int {
	fs := flag.NewFlagSet("check", flag.ExitOnError)
	tier := fs.String("tier", "quick", "quick|thorough")
	repo := fs.String("repo", "/repo", "repository")
	verif := fs.String("verif", "/verif", "verif dir")
	only := fs.String("only", "", "restrict to contracts containing this text")
	verbose := fs.Bool("v", false, "list every obligation")
	noEvid := fs.Bool("no-evidence", false, "do not write the evidence file")
	outDir := fs.String("out", "", "output directory for SMT files")
	replayFile := fs.String("replay", "", "replay file written by an earlier run: re-decide only the obligation it names on the current tree (and re-run its driver)")
	var prop string
	if len(args) > 0 && len(args[0]) > 0 && args[0][0] != '-' {
		prop = args[0]
		args = args[1:]
	}
	fs.Parse(args)
	if prop == "" {
		fmt.Fprintln(os.Stderr, "property id required")
		return 2
	}
	if t := os.Getenv("VERIF_TIER"); t != "" && *tier == "" {
		*tier = t
	}
	seed, _ := strconv.Atoi(os.Getenv("VERIF_SEED"))
	o := gov.CheckOpts{Prop: prop, Tier: *tier, RepoDir: *repo, VerifDir: *verif, Seed: seed, Only: *only, OutDir: *outDir}
	replayObl := ""
	if *replayFile != "" {
		b, err := os.ReadFile(*replayFile)
		if err != nil {
			fmt.Fprintln(os.Stderr, "gov:", err)
			return 2
		}
		var m struct {
			Obligation string `json:"obligation"`
		}
		if json.Unmarshal(b, &m) != nil || m.Obligation == "" {
			fmt.Fprintln(os.Stderr, "gov: not a replay file:", *replayFile)
			return 2
		}
		replayObl = m.Obligation
		o.NoEvid = true
		*noEvid = true
		o.OutDir = filepath.Join(*verif, "out", prop+"-replay")
		fmt.Printf("replaying obligation %s on the current tree\n", replayObl)
	}
	rep, err := gov.RunCheck(o)
	if err == nil && replayObl != "" {
		var keep []gov.Violation
		for _, v := range rep.Violations {
			if v.Obligation == replayObl {
				keep = append(keep, v)
			}
		}
		found := false
		for _, r := range rep.Results {
			if r.Obl.Name == replayObl {
				found = true
			}
		}
		if !found {
			keep = append(keep, gov.Violation{Obligation: replayObl, Reason: "the obligation is no longer generated from the current tree (contract or function missing)"})
		}
		rep.Violations = keep
	}
	if err != nil {
		fmt.Fprintln(os.Stderr, "gov: broken machinery:", err)
		return 2
	}
	resByName := map[string]*gov.Result{}
	for _, r := range rep.Results {
		resByName[r.Obl.Name] = r
		if *verbose || r.Status != "proved" {
			fmt.Printf("  %-9s %-8s %6.2fs %7dB  %s\n", r.Status, r.Solver, r.Time, r.Size, r.Obl.Name)
		}
	}
	for _, r := range rep.Covers {
		if *verbose || r.Status != "sat" {
			fmt.Printf("  cover:%-5s %-8s %6.2fs  %s\n", r.Status, r.Solver, r.Time, r.Cover.Name)
		}
	}
	specs := gov.LoadReplaySpecs(filepath.Join(*verif, "replay"))
	kf := gov.LoadKnownFindings(filepath.Join(*verif, "known-findings.jsonl"))
	outDirV := filepath.Join(*verif, "out", prop)
	nviol := 0
	var known []string
	sort.Slice(rep.Violations, func(i, j int) bool { return rep.Violations[i].Obligation < rep.Violations[j].Obligation })
	for i := range rep.Violations {
		v := &rep.Violations[i]
		if k := kf.Match(prop, v.Obligation); k != nil {
			line := fmt.Sprintf("KNOWN-FINDING: property=%s %s (%s)", prop, k.What, v.Obligation)
			fmt.Println(line)
			known = append(known, line)
			continue
		}
		nviol++
		if r := resByName[v.Obligation]; r != nil {
			for _, sp := range specs {
				if r.Status != "failed" && !sp.Static && !sp.Candidate {
					continue
				}
				if ok, _ := regexp.MatchString(sp.Obligation, v.Obligation); ok {
					ro := gov.RunReplay(sp, r, *repo, *verif, filepath.Join(outDirV, "replay"))
					v.Replay = ro
					v.HasInput = ro.Reproduced
					break
				}
			}
		}
		path := gov.WriteReplay(outDirV, prop, v, resByName[v.Obligation])
		suffix := ""
		if !v.HasInput {
			suffix = " no-failing-input-found"
		}
		fmt.Printf("  obligation %s: %s\n", v.Obligation, v.Reason)
		fmt.Printf("VIOLATION property=%s replay=%s%s\n", prop, path, suffix)
	}
	if *tier == "thorough" && replayObl == "" && nviol == 0 && len(rep.Broken) == 0 {
		// the deeper half of the thorough tier: re-run this property's mutant corpus (seeded changes, hand-written
		// must-fail edits, semantics-preserving must-stay-green edits) to show that the green result above is not
		// vacuous. A mutant that is not as expected means the check cannot be trusted (exit 2).
		ms, err := gov.LoadMutants(filepath.Join(*verif, "selftest", "mutants"))
		if err == nil {
			var sel []gov.Mutant
			for _, m := range ms {
				if m.Prop == prop {
					sel = append(sel, m)
				}
			}
			gov.CarefulPass = true
			results := make([]gov.MutantResult, len(sel))
			sem := make(chan struct{}, 5)
			done := make(chan int, len(sel))
			for i, m := range sel {
				go func(i int, m gov.Mutant) {
					sem <- struct{}{}
					results[i] = gov.RunMutant(m, *repo, *verif)
					<-sem
					done <- i
				}(i, m)
			}
			for range sel {
				<-done
			}
			for _, r := range results {
				rep.MutantsRun++
				st := "as expected"
				if r.OK {
					rep.MutantsAsExpect++
				} else {
					st = "NOT AS EXPECTED: " + r.Detail
					rep.Broken = append(rep.Broken, fmt.Sprintf("sensitivity mutant %s (expect %s): %s", r.Mutant.ID, r.Mutant.Expect, r.Detail))
				}
				rep.MutantDetails = append(rep.MutantDetails, fmt.Sprintf("%s expect=%s: %s %v", r.Mutant.ID, r.Mutant.Expect, st, r.Failed))
			}
			fmt.Printf("%s thorough: sensitivity corpus %d/%d mutants as expected\n", prop, rep.MutantsAsExpect, rep.MutantsRun)
		}
	}
	if !*noEvid {
		if err := gov.WriteEvidence(o, rep, nviol, known); err != nil {
			fmt.Fprintln(os.Stderr, "gov: cannot write evidence:", err)
			return 2
		}
	}
	fmt.Printf("%s %s: %d units, %d/%d obligations discharged, %d covers, %d violations, %d known findings, %.1fs\n",
		prop, *tier, len(rep.Units), rep.Discharged, rep.Obligations, len(rep.Covers), nviol, len(known), rep.Wall)
	if len(rep.Broken) > 0 {
		for _, b := range rep.Broken {
			fmt.Fprintln(os.Stderr, "gov: broken machinery:", b)
		}
		return 2
	}
	if nviol > 0 {
		return 1
	}
	return 0
}

func selftest(args []string) int {
	fs := flag.NewFlagSet("selftest", flag.ExitOnError)
	repo := fs.String("repo", "/repo", "repository")
	verif := fs.String("verif", "/verif", "verif dir")
	prop := fs.String("prop", "", "only mutants of this property")
	id := fs.String("id", "", "only this mutant")
	jobs := fs.Int("jobs", 4, "mutants checked in parallel")
	fs.Parse(args)
	ms, err := gov.LoadMutants(filepath.Join(*verif, "selftest", "mutants"))
	if err != nil {
		fmt.Fprintln(os.Stderr, err)
		return 2
	}
	bad := 0
	n := 0
	var sel []gov.Mutant
	for _, m := range ms {
		if *prop != "" && m.Prop != *prop {
			continue
		}
		if *id != "" && m.ID != *id {
			continue
		}
		sel = append(sel, m)
	}
	results := make([]gov.MutantResult, len(sel))
	sem := make(chan struct{}, *jobs)
	done := make(chan int, len(sel))
	for i, m := range sel {
		go func(i int, m gov.Mutant) {
			sem <- struct{}{}
			results[i] = gov.RunMutant(m, *repo, *verif)
			<-sem
			done <- i
		}(i, m)
	}
	for range sel {
		<-done
	}
	for _, r := range results {
		n++
		st := "ok"
		if !r.OK {
			st = "BAD"
			bad++
		}
		fmt.Printf("%-4s %-4s expect=%-4s %-40s %5.1fs %s %v\n", st, r.Mutant.Prop, r.Mutant.Expect, r.Mutant.ID, r.Wall, r.Detail, r.Failed)
	}
	fmt.Printf("selftest: %d mutants, %d not as expected\n", n, bad)
	if bad > 0 {
		return 1
	}
	return 0
}
