package main

import (
	"fmt"
	"os"
	"strings"

	"golang.org/x/tools/go/packages"
	"golang.org/x/tools/go/ssa"
	"golang.org/x/tools/go/ssa/ssautil"
)

func main() {
	pkgpat := os.Args[1]
	fnpat := os.Args[2]
	cfg := &packages.Config{Mode: packages.LoadAllSyntax, Dir: "/repo", BuildFlags: []string{"-tags=verif"}}
	pkgs, err := packages.Load(cfg, pkgpat)
	if err != nil {
		panic(err)
	}
	prog, spkgs := ssautil.AllPackages(pkgs, ssa.NaiveForm|ssa.GlobalDebug|ssa.InstantiateGenerics*0)
	prog.Build()
	for _, p := range spkgs {
		if p == nil {
			continue
		}
		for fn := range ssautil.AllFunctions(prog) {
			if fn.Pkg != p {
				continue
			}
			if strings.Contains(fn.String(), fnpat) {
				fn.WriteTo(os.Stdout)
				fmt.Println()
			}
		}
	}
}
