package gov

import (
	"fmt"
	"sort"
	"strings"
)

// Sort is an SMT sort name ("Int", "Bool", "String", "Slice", "Iface", "(Array Int Int)", ...).
type Sort string

const (
	SInt    Sort = "Int"
	SBool   Sort = "Bool"
	SString Sort = "String"
	SSlice  Sort = "Slice"
	SIface  Sort = "Iface"
	SF64    Sort = "F64"
)

func ArraySort(k, v Sort) Sort { return Sort("(Array " + string(k) + " " + string(v) + ")") }

// Term is an SMT term as text together with its sort. Terms are kept small by
// naming every intermediate result with define-fun in the Script.
type Term struct {
	S    string
	Sort Sort
}

func (t Term) String() string { return t.S }
func (t Term) IsZero() bool   { return t.S == "" }

func T(s string, sort Sort) Term { return Term{s, sort} }

var (
	True  = Term{"true", SBool}
	False = Term{"false", SBool}
	Nil   = Term{"0", SInt}
)

func IntLit(n int64) Term {
	if n < 0 {
		// avoid overflow on MinInt64
		if n == -9223372036854775808 {
			return Term{"(- 9223372036854775808)", SInt}
		}
		return Term{fmt.Sprintf("(- %d)", -n), SInt}
	}
	return Term{fmt.Sprintf("%d", n), SInt}
}

func BigLit(s string) Term {
	if strings.HasPrefix(s, "-") {
		return Term{"(- " + s[1:] + ")", SInt}
	}
	return Term{s, SInt}
}

func BoolLit(b bool) Term {
	if b {
		return True
	}
	return False
}

// StrLit renders a Go string as an SMT-LIB 2.6 string literal.
func StrLit(s string) Term {
	var b strings.Builder
	b.WriteByte('"')
	for _, c := range []byte(s) {
		switch {
		case c == '"':
			b.WriteString(`""`)
		case c == '\\':
			b.WriteString(`\u{5c}`)
		case c >= 0x20 && c < 0x7f:
			b.WriteByte(c)
		default:
			fmt.Fprintf(&b, `\u{%x}`, c)
		}
	}
	b.WriteByte('"')
	return Term{b.String(), SString}
}

func app(sort Sort, op string, args ...Term) Term {
	var b strings.Builder
	b.WriteByte('(')
	b.WriteString(op)
	for _, a := range args {
		b.WriteByte(' ')
		b.WriteString(a.S)
	}
	b.WriteByte(')')
	return Term{b.String(), sort}
}

func App(sort Sort, op string, args ...Term) Term { return app(sort, op, args...) }

func Not(a Term) Term {
	switch a.S {
	case "true":
		return False
	case "false":
		return True
	}
	if strings.HasPrefix(a.S, "(not ") && balanced(a.S[5:len(a.S)-1]) {
		return Term{a.S[5 : len(a.S)-1], SBool}
	}
	return app(SBool, "not", a)
}

func balanced(s string) bool {
	d := 0
	inStr := false
	for i := 0; i < len(s); i++ {
		c := s[i]
		if inStr {
			if c == '"' {
				inStr = false
			}
			continue
		}
		switch c {
		case '"':
			inStr = true
		case '(':
			d++
		case ')':
			d--
			if d < 0 {
				return false
			}
		case ' ':
			if d == 0 {
				return false
			}
		}
	}
	return d == 0
}

func And(ts ...Term) Term {
	var out []Term
	for _, t := range ts {
		if t.S == "true" {
			continue
		}
		if t.S == "false" {
			return False
		}
		out = append(out, t)
	}
	switch len(out) {
	case 0:
		return True
	case 1:
		return out[0]
	}
	return app(SBool, "and", out...)
}

func Or(ts ...Term) Term {
	var out []Term
	for _, t := range ts {
		if t.S == "false" {
			continue
		}
		if t.S == "true" {
			return True
		}
		out = append(out, t)
	}
	switch len(out) {
	case 0:
		return False
	case 1:
		return out[0]
	}
	return app(SBool, "or", out...)
}

func Implies(a, b Term) Term {
	if a.S == "true" {
		return b
	}
	if a.S == "false" || b.S == "true" {
		return True
	}
	return app(SBool, "=>", a, b)
}

func Eq(a, b Term) Term {
	if a.S == b.S {
		return True
	}
	return app(SBool, "=", a, b)
}

func Ite(c, a, b Term) Term {
	if c.S == "true" {
		return a
	}
	if c.S == "false" {
		return b
	}
	if a.S == b.S {
		return a
	}
	return app(a.Sort, "ite", c, a, b)
}

func Select(arr, idx Term, elem Sort) Term { return app(elem, "select", arr, idx) }
func Store(arr, idx, v Term) Term          { return app(arr.Sort, "store", arr, idx, v) }

func Add(a, b Term) Term { return app(SInt, "+", a, b) }
func Sub(a, b Term) Term { return app(SInt, "-", a, b) }
func Lt(a, b Term) Term  { return app(SBool, "<", a, b) }
func Le(a, b Term) Term  { return app(SBool, "<=", a, b) }

// DefineAsEquation selects how intermediate results are named.
var DefineAsEquation = true

// Script is the ordered log of declarations, definitions and (guarded)
// assumptions produced while executing one function. An obligation is
// discharged against the prefix of the log that existed when it was emitted.
type Script struct {
	lines    []string
	declared map[string]bool
	n        int
	// preamble (sort/datatype declarations) grows on demand and is always
	// emitted in full, before the log prefix.
	preamble     []string
	preambleSeen map[string]bool
}

func NewScript() *Script {
	return &Script{declared: map[string]bool{}, preambleSeen: map[string]bool{}}
}

func (s *Script) Pos() int { return len(s.lines) }

func (s *Script) Preamble(key, line string) {
	if s.preambleSeen[key] {
		return
	}
	s.preambleSeen[key] = true
	s.preamble = append(s.preamble, line)
}

func (s *Script) Fresh(prefix string) string {
	s.n++
	return fmt.Sprintf("%s!%d", sanitize(prefix), s.n)
}

func sanitize(s string) string {
	var b strings.Builder
	for _, c := range s {
		switch {
		case c >= 'a' && c <= 'z', c >= 'A' && c <= 'Z', c >= '0' && c <= '9', c == '_', c == '.', c == '$', c == '!', c == '@':
			b.WriteRune(c)
		default:
			b.WriteByte('_')
		}
	}
	return b.String()
}

// Declare introduces an unconstrained constant.
func (s *Script) Declare(name string, sort Sort) Term {
	if !s.declared[name] {
		s.declared[name] = true
		s.lines = append(s.lines, fmt.Sprintf("(declare-fun %s () %s)", name, sort))
	}
	return Term{name, sort}
}

func (s *Script) DeclareFun(name string, args []Sort, ret Sort) {
	if s.declared[name] {
		return
	}
	s.declared[name] = true
	as := make([]string, len(args))
	for i, a := range args {
		as[i] = string(a)
	}
	s.lines = append(s.lines, fmt.Sprintf("(declare-fun %s (%s) %s)", name, strings.Join(as, " "), ret))
}

func (s *Script) FreshConst(prefix string, sort Sort) Term {
	return s.Declare(s.Fresh(prefix), sort)
}

// Define names a term (define-fun), returning the name as a term. Small
// terms are returned as they are.
func (s *Script) Define(prefix string, t Term) Term {
	if len(t.S) < 24 || !strings.ContainsAny(t.S, " ") {
		return t
	}
	if strings.Contains(t.S, "?") {
		// mentions a bound variable of an enclosing quantifier: cannot be named at top level
		return t
	}
	name := s.Fresh(prefix)
	s.declared[name] = true
	if DefineAsEquation {
		// a constant with a defining equation (rather than a macro): keeps quantifier patterns that mention it free
		// of ite/and/not, which solvers reject inside patterns
		s.lines = append(s.lines, fmt.Sprintf("(declare-fun %s () %s)", name, t.Sort), fmt.Sprintf("(assert (= %s %s))", name, t.S))
	} else {
		s.lines = append(s.lines, fmt.Sprintf("(define-fun %s () %s %s)", name, t.Sort, t.S))
	}
	return Term{name, t.Sort}
}

func (s *Script) Assume(t Term) {
	if t.S == "true" {
		return
	}
	if hasFreeBound(t.S) {
		// a fact about a bound variable outside its quantifier is meaningless: drop it (only ever a redundant
		// representation fact generated while evaluating a quantified specification)
		return
	}
	s.lines = append(s.lines, fmt.Sprintf("(assert %s)", t.S))
}

func (s *Script) Comment(c string) {
	s.lines = append(s.lines, "; "+strings.ReplaceAll(c, "\n", " "))
}

// Render produces a complete SMT-LIB script for checking that goal follows
// from the first pos lines of the log (unsat = proved).
func (s *Script) Render(pos int, goal Term, wantModel bool, extra []string) string {
	var b strings.Builder
	b.WriteString(Prelude)
	if s.usesSumlen(pos, goal.S) {
		b.WriteString(sumlenAxiom)
	}
	for _, p := range s.preamble {
		b.WriteString(p)
		b.WriteByte('\n')
	}
	for _, l := range s.lines[:pos] {
		b.WriteString(l)
		b.WriteByte('\n')
	}
	for _, l := range extra {
		b.WriteString(l)
		b.WriteByte('\n')
	}
	fmt.Fprintf(&b, "(assert (not %s))\n(check-sat)\n", goal.S)
	if wantModel {
		b.WriteString("(get-model)\n")
	}
	return b.String()
}

// RenderSat produces a script checking that cond is satisfiable together with the log prefix (cover).
func (s *Script) RenderSat(pos int, cond Term) string {
	var b strings.Builder
	b.WriteString(Prelude)
	for _, p := range s.preamble {
		b.WriteString(p)
		b.WriteByte('\n')
	}
	for _, l := range s.lines[:pos] {
		if strings.HasPrefix(l, "(assert ") && (strings.Contains(l, "(forall ") || strings.Contains(l, "(exists ")) {
			// covers look for ground contradictions; quantified facts only make the solvers answer unknown
			continue
		}
		b.WriteString(l)
		b.WriteByte('\n')
	}
	fmt.Fprintf(&b, "(assert %s)\n(check-sat)\n", cond.S)
	return b.String()
}

// sumlenAxiom is added only to scripts that mention sumlen: a quantifier over an array sort makes the newer z3 give
// up early ("incomplete (theory array)") on goals that have nothing to do with it.
const sumlenAxiom = "(assert (forall ((r (Array Int Slice)) (lo Int) (hi Int)) (! (and (>= (sumlen r lo hi) 0) (=> (<= hi lo) (= (sumlen r lo hi) 0))) :pattern ((sumlen r lo hi)))))\n"

func (s *Script) usesSumlen(pos int, goal string) bool {
	if strings.Contains(goal, "sumlen") {
		return true
	}
	for _, l := range s.lines[:pos] {
		if strings.Contains(l, "sumlen") {
			return true
		}
	}
	for _, l := range s.preamble {
		if strings.Contains(l, "sumlen") {
			return true
		}
	}
	return false
}

// Prelude: fixed datatypes and arithmetic helpers shared by every obligation.
const Prelude = `(set-option :produce-models true)
(set-logic ALL)
(declare-datatypes ((Slice 0)) (((mk-slice (s-arr Int) (s-off Int) (s-len Int) (s-cap Int)))))
(declare-datatypes ((Iface 0)) (((mk-iface (i-typ Int) (i-val Int)))))
(declare-sort F64 0)
(define-fun wrap64 ((x Int)) Int (ite (> x 9223372036854775807) (- x 18446744073709551616) (ite (< x (- 9223372036854775808)) (+ x 18446744073709551616) x)))
(define-fun inrange64 ((x Int)) Bool (and (<= (- 9223372036854775808) x) (<= x 9223372036854775807)))
(define-fun godiv ((a Int) (b Int)) Int (ite (>= a 0) (ite (> b 0) (div a b) (- (div a (- b)))) (ite (> b 0) (- (div (- a) b)) (div (- a) (- b)))))
(define-fun gomod ((a Int) (b Int)) Int (- a (* b (godiv a b))))
(define-fun wf-slice ((s Slice)) Bool (and (>= (s-off s) 0) (>= (s-len s) 0) (<= (s-len s) (s-cap s)) (<= (s-cap s) 4611686018427387904) (>= (s-arr s) 0) (=> (= (s-arr s) 0) (and (= (s-cap s) 0) (= (s-off s) 0)))))
(declare-fun sumlen ((Array Int Slice) Int Int) Int)
(define-fun nil-slice () Slice (mk-slice 0 0 0 0))
(define-fun nil-iface () Iface (mk-iface 0 0))
`

func sortedKeys[V any](m map[string]V) []string {
	ks := make([]string, 0, len(m))
	for k := range m {
		ks = append(ks, k)
	}
	sort.Strings(ks)
	return ks
}

// hasFreeBound reports whether a formula mentions a bound-variable name (x?N) that it does not bind itself.
func hasFreeBound(f string) bool {
	i := 0
	for {
		j := strings.Index(f[i:], "?")
		if j < 0 {
			return false
		}
		j += i
		// extract the identifier around '?'
		a := j
		for a > 0 && !strings.ContainsRune("() ", rune(f[a-1])) {
			a--
		}
		b := j
		for b < len(f) && !strings.ContainsRune("() ", rune(f[b])) {
			b++
		}
		name := f[a:b]
		if !strings.Contains(f, "(("+name+" ") && !strings.Contains(f, " ("+name+" ") {
			return true
		}
		i = b
		if i >= len(f) {
			return false
		}
	}
}

// UseF64 declares the float64 operations and states their semantics on the *exact-integer fragment*: float64 values that
// are integers of magnitude at most 2^53 (every such integer is representable exactly). On that fragment comparison is
// integer comparison, abs/neg/trunc act as on integers, the values are finite, and conversion back to int64 is exact;
// a float64 that is not NaN and lies between two such integers truncates to an integer between them. Everything else
// about float64 stays uninterpreted. Each axiom is an IEEE-754 fact proved in QF_BVFP by the raw lemmas
// specs/lemmas/C12-f64-*.smt2 (run by the C12 check).
func (s *Script) UseF64() {
	if s.preambleSeen["f64-theory"] {
		return
	}
	s.preambleSeen["f64-theory"] = true
	decl := func(name, sig string) {
		if !s.declared[name] {
			s.declared[name] = true
			s.preamble = append(s.preamble, fmt.Sprintf("(declare-fun %s %s)", name, sig))
		}
	}
	decl("f64.of.int", "(Int) F64")
	decl("int.of.f64", "(F64) Int")
	for _, n := range []string{"lt", "le", "gt", "ge", "eq"} {
		decl("f64."+n, "(F64 F64) Bool")
	}
	for _, n := range []string{"add", "sub", "mul", "div"} {
		decl("f64."+n, "(F64 F64) F64")
	}
	for _, n := range []string{"neg", "abs", "trunc"} {
		decl("f64."+n, "(F64) F64")
	}
	decl("f64.isnan", "(F64) Bool")
	decl("f64.isinf", "(F64) Bool")
	safe := func(v string) string {
		return fmt.Sprintf("(and (<= (- 9007199254740992) %s) (<= %s 9007199254740992))", v, v)
	}
	for _, op := range [][2]string{{"lt", "<"}, {"le", "<="}, {"gt", ">"}, {"ge", ">="}, {"eq", "="}} {
		s.preamble = append(s.preamble, fmt.Sprintf("(assert (forall ((a?f Int) (b?f Int)) (! (=> (and %s %s) (= (f64.%s (f64.of.int a?f) (f64.of.int b?f)) (%s a?f b?f))) :pattern ((f64.%s (f64.of.int a?f) (f64.of.int b?f))))))", safe("a?f"), safe("b?f"), op[0], op[1], op[0]))
	}
	one := func(body, pat string) {
		s.preamble = append(s.preamble, fmt.Sprintf("(assert (forall ((a?f Int)) (! (=> %s %s) :pattern (%s))))", safe("a?f"), body, pat))
	}
	one("(not (f64.isnan (f64.of.int a?f)))", "(f64.isnan (f64.of.int a?f))")
	one("(not (f64.isinf (f64.of.int a?f)))", "(f64.isinf (f64.of.int a?f))")
	one("(= (f64.trunc (f64.of.int a?f)) (f64.of.int a?f))", "(f64.trunc (f64.of.int a?f))")
	one("(= (f64.abs (f64.of.int a?f)) (f64.of.int (ite (< a?f 0) (- a?f) a?f)))", "(f64.abs (f64.of.int a?f))")
	one("(= (f64.neg (f64.of.int a?f)) (f64.of.int (- a?f)))", "(f64.neg (f64.of.int a?f))")
	one("(= (int.of.f64 (f64.of.int a?f)) a?f)", "(f64.of.int a?f)")
	s.preamble = append(s.preamble, fmt.Sprintf("(assert (forall ((x?f F64) (lo?f Int) (hi?f Int)) (! (=> (and %s %s (not (f64.isnan x?f)) (not (f64.lt x?f (f64.of.int lo?f))) (not (f64.gt x?f (f64.of.int hi?f)))) (and (<= lo?f (int.of.f64 x?f)) (<= (int.of.f64 x?f) hi?f))) :pattern ((f64.lt x?f (f64.of.int lo?f)) (f64.gt x?f (f64.of.int hi?f))))))", safe("lo?f"), safe("hi?f")))
}
