package gov

import (
	"os"
	"fmt"
	"go/token"
	"go/types"
	"sort"
	"strings"

	"golang.org/x/tools/go/ssa"
)

// Obligation is one named proof goal: it must follow from the script prefix [0,Pos).
type Obligation struct {
	Name   string
	Kind   string // ensures, requires@callee, inv-entry, inv-preserve, panic, assert, mon-inv, mon-trans, lemma, discipline
	Pos    int
	Goal   Term
	Src    string
	File   string
	Line   int
	Where  string // source position in /repo the goal was generated at
	Fn     string
	Script *Script
	Raw    string // a complete SMT-LIB script (raw lemma obligations); unsat = proved
	Note   string
}

// Cover is a satisfiability check guarding against vacuous proofs.
type Cover struct {
	Name   string
	Pos    int
	Cond   Term
	Script *Script
	Fn     string
}

// FnRun is the verification of one function under contract.
type FnRun struct {
	Eng         *Engine
	Sc          *Script
	TM          *TypeMap
	Heap        *Heap
	Fn          *ssa.Function
	Contract    *Contract
	Obls        []*Obligation
	Covers      []*Cover
	Trusted     map[string]bool // trusted contracts / assumptions used
	Notes       map[string]bool // abstractions applied (havocs, unsupported constructs)
	Inlined     map[string]bool
	Unsupported []string
	addrTable   map[string]*Loc
	closures    map[string]*closureInfo
	boxHolds    map[string][]Val // values stored into own (unescaped) variable cells: they escape when the cell does
	funcRefs    map[string]*ssa.Function
	factsDone   map[string]bool
	nameCount   map[string]int
	inlineStack []*ssa.Function
	trackTypes    map[string]types.Type
	UsedContracts map[string]bool
	SpecFuns      map[string]bool
	topFrame      *Frame
	lemmaRun      bool
	inInit        bool
	snaps         map[string]*State
	snapReached   map[string]Term // path condition under which a lock snapshot was recorded
	constCells    map[string]Term
	action        *ssa.Function // the function literal when this run verifies a monitor action
	monitor       *Monitor
	actionVars    map[string]EV
	monVars       map[string]EV
	inlinedBlocks int
	loggedAlias   map[string]bool // track aliases for which some call was logged during symbolic execution
	staticAlias   map[string]bool // track aliases with a call site in the body (or its literals / small wrappers)
	frameAllowed  map[string]*frameAllow
	frameAll      bool
	globalsChecked map[string]bool
	frameN        int
	lockCovers    map[string]Term // per lock site: disjunction of the path conditions under which it was executed
	lockCoverOrd  []string
	lockTouched   map[string]bool // components forgotten at Lock/Unlock of a lock-style monitor (exempt from the frame check)
}

type closureInfo struct {
	fn       *ssa.Function
	bindings []Val
}

func (e *Engine) NewRun(fn *ssa.Function, c *Contract) *FnRun {
	sc := NewScript()
	r := &FnRun{Eng: e, Sc: sc, TM: NewTypeMap(sc, ModulePath), Heap: NewHeap(sc), Fn: fn, Contract: c,
		Trusted: map[string]bool{}, Notes: map[string]bool{}, Inlined: map[string]bool{}, addrTable: map[string]*Loc{},
		closures: map[string]*closureInfo{}, boxHolds: map[string][]Val{}, funcRefs: map[string]*ssa.Function{}, factsDone: map[string]bool{}, nameCount: map[string]int{},
		globalsChecked: map[string]bool{}, snaps: map[string]*State{}, snapReached: map[string]Term{}, constCells: map[string]Term{}, trackTypes: map[string]types.Type{}, UsedContracts: map[string]bool{}, SpecFuns: map[string]bool{}, lockTouched: map[string]bool{}}
	r.Heap.noQuantBase = c != nil && !contractNeedsQuantifiedHeapFacts(e, c) && os.Getenv("GOV_QUANTBASE") == ""
	return r
}

// contractNeedsQuantifiedHeapFacts: does the unit reason about unboundedly many heap cells (quantifiers, freshness,
// sums, loop invariants)? If not, the typing facts attached to each load are all it can use.
func contractNeedsQuantifiedHeapFacts(e *Engine, c *Contract) bool {
	if c.HeapFacts == "on" {
		return true
	}
	if c.HeapFacts == "off" {
		return false
	}
	needs := func(src string) bool {
		return strings.Contains(src, "forall") || strings.Contains(src, "exists") || strings.Contains(src, "fresh(") || strings.Contains(src, "sumLens")
	}
	var all []Clause
	all = append(all, c.Requires...)
	all = append(all, c.Ensures...)
	all = append(all, c.Assumes...)
	for _, cl := range c.Loops {
		all = append(all, cl...)
	}
	for _, a := range c.Asserts {
		all = append(all, a.Clause)
	}
	for _, cl := range all {
		if needs(cl.Src) {
			return true
		}
	}
	for _, m := range e.DB.Monitors {
		if m.PkgPath != c.PkgPath {
			continue
		}
		if m.Kind == "lock" {
			// only the monitors whose mutex this function takes (or is declared to hold) matter
			uses := false
			if f := e.FindFunc(c.Key); f != nil && e.isLockSection(m, f) {
				uses = true
			}
			for _, h := range c.Holds {
				if h.Mon == m.Name {
					uses = true
				}
			}
			if !uses {
				continue
			}
		}
		for _, inv := range append(append([]Clause{}, m.Invariants...), m.Trans...) {
			if needs(inv.Src) {
				return true
			}
		}
	}
	return false
}

func (r *FnRun) note(format string, a ...any) { r.Notes[fmt.Sprintf(format, a...)] = true }

func (r *FnRun) pos(p token.Pos) string {
	if !p.IsValid() || r.Eng.Fset == nil {
		return ""
	}
	ps := r.Eng.Fset.Position(p)
	return fmt.Sprintf("%s:%d", strings.TrimPrefix(ps.Filename, r.Eng.RepoDir+"/"), ps.Line)
}

func (r *FnRun) fnShort(fn *ssa.Function) string {
	if fn == nil {
		return "lemmas"
	}
	s := fn.String()
	s = strings.ReplaceAll(s, ModulePath+"/", "")
	return s
}

func (r *FnRun) addObl(kind, label string, goal Term, src string, cl *Clause, where token.Pos) {
	name := fmt.Sprintf("%s#%s:%s", r.fnShortSafe(), kind, label)
	r.nameCount[name]++
	if n := r.nameCount[name]; n > 1 {
		name = fmt.Sprintf("%s~%d", name, n)
	}
	o := &Obligation{Name: name, Kind: kind, Pos: r.Sc.Pos(), Goal: goal, Src: src, Where: r.pos(where), Fn: r.fnShort(r.Fn), Script: r.Sc}
	if cl != nil {
		o.File, o.Line = cl.File, cl.Line
	}
	r.Obls = append(r.Obls, o)
}

func (r *FnRun) addCover(label string, cond Term) {
	r.Covers = append(r.Covers, &Cover{Name: fmt.Sprintf("%s#cover:%s", r.fnShortSafe(), label), Pos: r.Sc.Pos(), Cond: cond, Script: r.Sc, Fn: r.fnShort(r.Fn)})
}

// Frame is the execution of one function body (the function under contract, or an inlined callee).
type Frame struct {
	R        *FnRun
	Fn       *ssa.Function
	C        *Contract // contract of this body if it is the unit under verification
	env      map[ssa.Value]Val
	names    map[string]Val // parameters / free variables / receiver at entry, by source name
	nameTys  map[string]types.Type
	cur      Term // current path condition
	st       *State
	entry    *State
	depth    int
	top      bool // the unit under verification (not an inlined callee)
	defers   []*ssa.Defer
	rets     []retRec
	suspended []suspRec // return paths stopped at their RunDefers: the deferred calls run once, on the merged state
	resuming  bool
	inEdges  map[*ssa.BasicBlock][]edge
	loopOrd  map[*ssa.BasicBlock]int
	backEdge map[[2]int]bool
	curBlock *ssa.BasicBlock
	loops     map[*ssa.BasicBlock]*loopInfo
	loopsUsed map[int]bool
	rangeInfo map[*ssa.Range]*rangeInfo
	strPos    map[*ssa.Range]string // range-over-string loops: ghost key of the byte position
	id        int
	noKeep    bool // the next heap havoc must not preserve monitor-protected state
	lockKeep  bool // ... except the state of lock-style monitors: the code reached cannot contain a function that works on it
	parent    *Frame          // the frame this one is inlined into
	ownBoxes  map[string]*Loc // boxed locals of this frame (by reference term) whose address has not escaped
	ownMaps   map[string]*types.Map // maps made by this frame that only its own code can reach (static escape analysis, see mapStaysLocal)
	pendingArgs []Val         // arguments of the call being dispatched (for escape marking)
	predGuard map[*ssa.BasicBlock]Term // for phi: guard of the edge from each pred into the current block
}

type edge struct {
	pred  *ssa.BasicBlock
	guard Term
	st    *State
}

// lockSignature identifies which monitored locks a state holds (and on which objects).
func lockSignature(st *State) string {
	var parts []string
	for k, v := range st.held {
		if v {
			parts = append(parts, k)
		}
	}
	for k, h := range st.locks {
		parts = append(parts, k+"@"+h.owner.S+fmt.Sprintf("#%p", h))
	}
	sort.Strings(parts)
	return strings.Join(parts, ",")
}

type suspRec struct {
	b     *ssa.BasicBlock
	idx   int
	guard Term
	st    *State
}

type retRec struct {
	guard   Term
	st      *State
	results []Val
}

type unsupportedErr struct{ msg string }

func (r *FnRun) unsupported(format string, a ...any) {
	panic(unsupportedErr{fmt.Sprintf(format, a...)})
}

// assume adds a fact valid on the current path.
func (fr *Frame) assume(t Term) {
	fr.R.Sc.Assume(Implies(fr.cur, t))
}

func (fr *Frame) define(prefix string, t Term) Term { return fr.R.Sc.Define(prefix, t) }

// freshTyped introduces an unconstrained value of a Go type with its type invariants assumed.
func (fr *Frame) freshTyped(prefix string, t types.Type) Term {
	v := fr.R.Sc.FreshConst(prefix, fr.R.TM.SortOf(t))
	fr.typeFacts(v, t)
	return v
}

// typeFacts assumes the representation invariants of a value of Go type t (machine-integer range, slice shape, live reference).
func (fr *Frame) typeFacts(v Term, t types.Type) {
	key := v.S + "|" + fr.st.top.S
	if len(v.S) > 200 {
		return
	}
	if fr.R.factsDone[key] {
		return
	}
	fr.R.factsDone[key] = true
	t = types.Unalias(t)
	if lo, hi, ok := IntRange(t); ok {
		fr.R.Sc.Assume(And(Le(BigLit(lo), v), Le(v, BigLit(hi))))
		return
	}
	switch u := t.Underlying().(type) {
	case *types.Slice:
		fr.R.Sc.Assume(And(app(SBool, "wf-slice", v), Le(app(SInt, "s-arr", v), fr.st.top)))
	case *types.Pointer, *types.Map, *types.Chan, *types.Signature:
		fr.R.Sc.Assume(And(Le(IntLit(0), v), Le(v, fr.st.top)))
	case *types.Interface:
		if _, isTP := t.(*types.TypeParam); isTP {
			return
		}
		fr.R.Sc.Assume(And(Le(IntLit(0), app(SInt, "i-typ", v)), Implies(Eq(app(SInt, "i-typ", v), IntLit(0)), Eq(app(SInt, "i-val", v), IntLit(0)))))
	case *types.Struct:
		_ = u
	case *types.Basic:
		if u.Info()&types.IsString != 0 {
			// A-MEM: no string is longer than 2^62 bytes
			fr.R.Sc.Assume(Le(app(SInt, "str.len", v), BigLit("4611686018427387904")))
		}
	}
}

// ---------- running a body ----------

type cfgInfo struct {
	order   []*ssa.BasicBlock
	back    map[[2]int]bool
	headers map[*ssa.BasicBlock]int // loop header -> ordinal (1-based, by block index)
	body    map[*ssa.BasicBlock][]*ssa.BasicBlock
}

func analyzeCFG(fn *ssa.Function) *cfgInfo {
	ci := &cfgInfo{back: map[[2]int]bool{}, headers: map[*ssa.BasicBlock]int{}, body: map[*ssa.BasicBlock][]*ssa.BasicBlock{}}
	var hdrs []*ssa.BasicBlock
	for _, b := range fn.Blocks {
		for _, s := range b.Succs {
			if s.Dominates(b) {
				ci.back[[2]int{b.Index, s.Index}] = true
				if _, ok := ci.headers[s]; !ok {
					ci.headers[s] = 0
					hdrs = append(hdrs, s)
				}
			}
		}
	}
	sort.Slice(hdrs, func(i, j int) bool { return hdrs[i].Index < hdrs[j].Index })
	for i, h := range hdrs {
		ci.headers[h] = i + 1
	}
	// natural loop bodies
	for _, h := range hdrs {
		in := map[*ssa.BasicBlock]bool{h: true}
		var stack []*ssa.BasicBlock
		for _, b := range fn.Blocks {
			if ci.back[[2]int{b.Index, h.Index}] && !in[b] {
				in[b] = true
				stack = append(stack, b)
			}
		}
		for len(stack) > 0 {
			b := stack[len(stack)-1]
			stack = stack[:len(stack)-1]
			for _, p := range b.Preds {
				if !in[p] {
					in[p] = true
					stack = append(stack, p)
				}
			}
		}
		for _, b := range fn.Blocks {
			if in[b] {
				ci.body[h] = append(ci.body[h], b)
			}
		}
	}
	// reverse postorder ignoring back edges
	seen := map[*ssa.BasicBlock]bool{}
	var post []*ssa.BasicBlock
	var dfs func(b *ssa.BasicBlock)
	dfs = func(b *ssa.BasicBlock) {
		seen[b] = true
		for _, s := range b.Succs {
			if ci.back[[2]int{b.Index, s.Index}] || seen[s] {
				continue
			}
			dfs(s)
		}
		post = append(post, b)
	}
	if len(fn.Blocks) > 0 {
		dfs(fn.Blocks[0])
		if fn.Recover != nil && !seen[fn.Recover] {
			// recover block is only reachable after a recovered panic: not modelled
		}
	}
	for i := len(post) - 1; i >= 0; i-- {
		ci.order = append(ci.order, post[i])
	}
	return ci
}

// runBody executes the blocks of fr.Fn from state st under guard g. Results are merged over all returns.
func (fr *Frame) runBody(st *State, g Term) (retGuard Term, out *State, results []Val) {
	fn := fr.Fn
	if len(fn.Blocks) == 0 {
		fr.R.unsupported("function %s has no body", fn)
	}
	ci := analyzeCFG(fn)
	fr.inEdges = map[*ssa.BasicBlock][]edge{}
	fr.inEdges[fn.Blocks[0]] = []edge{{nil, g, st}}
	for _, b := range ci.order {
		edges := fr.inEdges[b]
		if len(edges) == 0 {
			continue
		}
		var gs []Term
		var sts []*State
		fr.predGuard = map[*ssa.BasicBlock]Term{}
		for _, e := range edges {
			gs = append(gs, e.guard)
			sts = append(sts, e.st)
			if e.pred != nil {
				if old, ok := fr.predGuard[e.pred]; ok {
					fr.predGuard[e.pred] = Or(old, e.guard)
				} else {
					fr.predGuard[e.pred] = e.guard
				}
			}
		}
		bg := fr.define(fmt.Sprintf("g.%s.b%d", fn.Name(), b.Index), Or(gs...))
		DebugWhere = fmt.Sprintf("%s b%d %s", fn.Name(), b.Index, b.Comment)
		fr.st = fr.R.Heap.Merge(fr.R.Sc, gs, sts)
		fr.cur = bg
		fr.curBlock = b
		if bg.S == "false" {
			continue
		}
		if ord, isHdr := ci.headers[b]; isHdr {
			fr.loopCut(b, ord, ci)
		}
		fr.execBlock(b, ci)
	}
	// deferred calls: every return path stopped at its RunDefers; run them once on the merge of those paths (the
	// merge is an if-then-else over the path conditions, so nothing is lost), then finish each return path
	if len(fr.suspended) > 0 {
		// return paths are grouped by the locks they hold (paths that return before taking a lock and paths
		// that return inside its critical section cannot share one execution of the deferred Unlock)
		groups := map[string][]suspRec{}
		var order []string
		for _, s := range fr.suspended {
			sig := lockSignature(s.st)
			if _, ok := groups[sig]; !ok {
				order = append(order, sig)
			}
			groups[sig] = append(groups[sig], s)
		}
		fr.suspended = nil
		fr.resuming = true
		for _, sig := range order {
			grp := groups[sig]
			var sgs []Term
			var ssts []*State
			for _, s := range grp {
				sgs = append(sgs, s.guard)
				ssts = append(ssts, s.st)
			}
			DebugWhere = "deferred calls of " + fn.Name()
			fr.st = fr.R.Heap.Merge(fr.R.Sc, sgs, ssts)
			fr.cur = fr.define("dfr."+fn.Name(), Or(sgs...))
			fr.runDefers()
			after, curAfter := fr.st, fr.cur
			for _, s := range grp {
				fr.st = after.Clone()
				fr.cur = fr.define("rg", And(s.guard, curAfter))
				fr.curBlock = s.b
				fr.execBlockFrom(s.b, ci, s.idx+1)
			}
		}
		fr.resuming = false
	}
	// merge returns
	if len(fr.rets) == 0 {
		return False, st, nil
	}
	var gs []Term
	var sts []*State
	for _, r := range fr.rets {
		gs = append(gs, r.guard)
		sts = append(sts, r.st)
	}
	retGuard = fr.define("ret."+fn.Name(), Or(gs...))
	DebugWhere = "returns of " + fn.Name()
	out = fr.R.Heap.Merge(fr.R.Sc, gs, sts)
	n := len(fr.rets[0].results)
	results = make([]Val, n)
	for i := 0; i < n; i++ {
		v := fr.rets[len(fr.rets)-1].results[i]
		for j := len(fr.rets) - 2; j >= 0; j-- {
			v = fr.iteVal(fr.rets[j].guard, fr.rets[j].results[i], v)
		}
		if v.T.S != "" {
			v.T = fr.define(fmt.Sprintf("res%d.%s", i, fn.Name()), v.T)
		}
		results[i] = v
	}
	return retGuard, out, results
}

func (fr *Frame) iteVal(c Term, a, b Val) Val {
	if a.Tuple != nil || b.Tuple != nil {
		n := len(a.Tuple)
		out := Val{Tuple: make([]Val, n)}
		for i := 0; i < n; i++ {
			out.Tuple[i] = fr.iteVal(c, a.Tuple[i], b.Tuple[i])
		}
		return out
	}
	at, bt := fr.termOf(a), fr.termOf(b)
	v := Val{T: Ite(c, at, bt)}
	if a.Loc != nil && b.Loc != nil && at.S == bt.S {
		v.Loc = a.Loc
	}
	return v
}

func (fr *Frame) pushEdge(from, to *ssa.BasicBlock, g Term, ci *cfgInfo) {
	if g.S == "false" {
		return
	}
	if ci.back[[2]int{from.Index, to.Index}] {
		fr.loopBackEdge(to, ci.headers[to], g)
		return
	}
	fr.inEdges[to] = append(fr.inEdges[to], edge{from, g, fr.st})
}

func (fr *Frame) execBlock(b *ssa.BasicBlock, ci *cfgInfo) {
	fr.execBlockFrom(b, ci, 0)
}

func (fr *Frame) execBlockFrom(b *ssa.BasicBlock, ci *cfgInfo, start int) {
	for i, in := range b.Instrs {
		if i < start {
			continue
		}
		if fr.cur.S == "false" {
			return
		}
		switch in := in.(type) {
		case *ssa.RunDefers:
			if !fr.resuming && len(fr.defers) > 0 && os.Getenv("GOV_NODEFERMERGE") == "" {
				fr.suspended = append(fr.suspended, suspRec{b, i, fr.cur, fr.st})
				return
			}
		case *ssa.If:
			c := fr.termOf(fr.val(in.Cond))
			c = fr.define("c", c)
			st := fr.st
			fr.pushEdge(b, b.Succs[0], fr.define("e", And(fr.cur, c)), ci)
			fr.st = st.Clone()
			fr.pushEdge(b, b.Succs[1], fr.define("e", And(fr.cur, Not(c))), ci)
			return
		case *ssa.Jump:
			fr.pushEdge(b, b.Succs[0], fr.cur, ci)
			return
		case *ssa.Return:
			var rs []Val
			for _, r := range in.Results {
				rs = append(rs, fr.val(r))
			}
			fr.rets = append(fr.rets, retRec{fr.cur, fr.st, rs})
			return
		case *ssa.Panic:
			if isRangeFuncProtocolPanic(in) {
				// the compiler's guard in a range-over-func body ("yield function called after range loop exit"): only an
				// iterator that keeps calling yield after it returned false gets here; the iterators this code ranges
				// over are under contract (all-or-stopped) or library iterators
				fr.R.Trusted["range-over-func: an iterator does not call yield again after yield returned false (the compiler's guard panic is unreachable)"] = true
				fr.cur = False
				return
			}
			fr.panicAt(in.Pos(), "explicit", True)
			return
		default:
			fr.execInstr(in)
		}
	}
}

// panicAt records that execution panics on the current path when cond holds; execution continues under !cond.
func (fr *Frame) panicAt(pos token.Pos, what string, cond Term) {
	if cond.S == "false" {
		return
	}
	c := fr.topContract()
	if c != nil && (c.NoPanic || (c.NoExplicitPanic && what == "explicit")) {
		// allowed when a 'panics when' clause covers it
		goal := Implies(And(fr.cur, cond), fr.panicAllowed())
		fr.R.addObl("panic", what+"@"+fr.R.pos(pos), goal, "no panic: "+what, nil, pos)
	}
	fr.cur = fr.define("np", And(fr.cur, Not(cond)))
}

func (fr *Frame) topContract() *Contract { return fr.R.Contract }

func (fr *Frame) panicAllowed() Term {
	c := fr.R.Contract
	if c == nil || len(c.Panics) == 0 {
		return False
	}
	// 'panics when' conditions are evaluated over the entry state of the unit
	var ds []Term
	topFr := fr
	for _, p := range c.Panics {
		ev := topFr.R.evalEntry(p.E)
		ds = append(ds, ev)
	}
	return Or(ds...)
}

// isRangeFuncProtocolPanic: a panic the compiler inserted into the synthetic body of a range-over-func loop.
func isRangeFuncProtocolPanic(in *ssa.Panic) bool {
	fn := in.Parent()
	if fn == nil || fn.Synthetic != "range-over-func yield" {
		return false
	}
	v := in.X
	if mi, ok := v.(*ssa.MakeInterface); ok {
		v = mi.X
	}
	c, ok := v.(*ssa.Const)
	if !ok || c.Value == nil {
		return false
	}
	s := c.Value.ExactString()
	return strings.Contains(s, "range loop exit") || strings.Contains(s, "range function")
}
