package gov

import (
	"go/token"
	"go/types"

	"golang.org/x/tools/go/ssa"
)

// Range-over-func loops. go/ssa compiles "for x := range seq { body }" into seq(yield) where yield is a synthetic
// closure holding the loop body. The iterator seq is unknown code, so what it does is abstracted - but the body is
// not: either the iterator never calls yield (the variables the body assigns keep their values), or it calls it one
// or more times; then the variables have arbitrary values before the LAST call, that call is executed (inlined, on
// arbitrary element values), and afterwards only the iterator runs. Everything the iterator itself may touch (the
// whole heap, except boxed locals only this function can reach) is forgotten before and after.
//
// What this keeps, compared with forgetting everything the body assigns: the effect of the last body execution -
// in particular "return" inside the loop body (the hidden exit state and result variables).

func (fr *Frame) rangeFuncYield(cc *ssa.CallCommon) (*closureInfo, int) {
	if cc.IsInvoke() {
		return nil, -1
	}
	for i, a := range cc.Args {
		mc, ok := a.(*ssa.MakeClosure)
		if !ok {
			continue
		}
		fn, ok := mc.Fn.(*ssa.Function)
		if !ok || fn.Synthetic != "range-over-func yield" {
			continue
		}
		v := fr.val(a)
		if ci, ok := fr.R.closures[v.T.S]; ok {
			return ci, i
		}
	}
	return nil, -1
}

func (fr *Frame) rangeFuncCall(cc *ssa.CallCommon, ci *closureInfo, pos token.Pos) Val {
	r := fr.R
	body := ci.fn
	r.note("range-over-func loop in %s: the iterator is arbitrary code; the last execution of the loop body is kept", r.fnShort(fr.Fn))
	saved := fr.pendingArgs
	fr.pendingArgs = nil // the yield closure does not escape to anything but the iterator modelled here
	defer func() { fr.pendingArgs = saved }()
	cur0 := fr.cur
	called := r.Sc.FreshConst("iter.called", SBool)
	// user invariant over the variables the body assigns: holds before the loop, is assumed before the last
	// body execution (it held after every earlier one) and is re-established by it
	var invs []Clause
	if fr.top && fr.C != nil {
		invs = fr.C.RangeInvs
	}
	for _, inv := range invs {
		cl := inv
		r.addObl("rangeloop:inv-entry", inv.Label, Implies(fr.cur, fr.ctxHere().Bool(inv.E)), inv.Src, &cl, pos)
	}

	// (A) the iterator never calls the body
	stA := fr.st.Clone()
	fr.st = stA
	fr.bumpTop()
	fr.havocAllHeap()
	stA = fr.st

	// (B) one or more calls: arbitrary values of the assigned variables before the last call
	fr.st = fr.st.Clone()
	fr.cur = fr.define("it", And(cur0, called))
	fr.bumpTop()
	fr.havocAllHeap()
	for i, fv := range body.FreeVars {
		if i >= len(ci.bindings) || !closureWrites(body, fv) {
			continue
		}
		el := fv.Type().(*types.Pointer).Elem()
		fr.store(fr.locOf(ci.bindings[i], el), fr.freshTyped("it."+fv.Name(), el))
	}
	var args []Val
	for _, p := range body.Params {
		args = append(args, TV(fr.freshTyped("it."+p.Name(), p.Type())))
	}
	for _, inv := range invs {
		fr.assume(fr.ctxHere().Bool(inv.E))
	}
	if !fr.canInlineBody(body) {
		r.unsupported("range-over-func body of %s is too large to execute", r.fnShort(fr.Fn))
	}
	goOn := fr.inlineCall(body, args, ci.bindings, pos)
	curB := fr.cur
	for _, inv := range invs {
		// only an execution that asks for the next element (yield returns true) must re-establish the invariant:
		// after a break or return the loop is over and the code that follows sees this execution's effects as they are
		cl := inv
		cont := True
		if goOn.T.Sort == SBool {
			cont = goOn.T
		}
		r.addObl("rangeloop:inv-preserve", inv.Label, Implies(And(fr.cur, cont), fr.ctxHere().Bool(inv.E)), inv.Src, &cl, pos)
	}
	fr.bumpTop()
	fr.havocAllHeap()
	stB := fr.st

	fr.st = r.Heap.Merge(r.Sc, []Term{called, Not(called)}, []*State{stB, stA})
	fr.cur = fr.define("it", Or(And(cur0, Not(called)), curB))
	return Val{Tuple: []Val{}}
}

// canInlineBody: loop bodies are executed whenever the unit's block budget allows.
func (fr *Frame) canInlineBody(fn *ssa.Function) bool {
	if len(fn.Blocks) == 0 || fr.depth >= 6 {
		return false
	}
	return fr.R.inlinedBlocks+len(fn.Blocks) <= 900
}
