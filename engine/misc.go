package gov

import (
	"fmt"
	"go/token"
	"go/types"
	"strings"

	"golang.org/x/tools/go/ssa"
)

// ---------- builtins ----------

func (fr *Frame) builtin(b *ssa.Builtin, cc *ssa.CallCommon, pos token.Pos) Val {
	tm := fr.R.TM
	h := fr.R.Heap
	arg := func(i int) Term { return fr.termOf(fr.val(cc.Args[i])) }
	switch b.Name() {
	case "len":
		x := arg(0)
		switch u := types.Unalias(cc.Args[0].Type()).Underlying().(type) {
		case *types.Basic:
			return TV(fr.define("len", app(SInt, "str.len", x)))
		case *types.Slice:
			return TV(fr.define("len", app(SInt, "s-len", x)))
		case *types.Map:
			fr.mapLenFacts(x, u)
			l := fr.define("len", Ite(Eq(x, Nil), IntLit(0), fr.mapLen(x, u)))
			fr.R.Sc.Assume(Le(IntLit(0), l))
			return TV(l)
		case *types.Pointer:
			if at, ok := types.Unalias(u.Elem()).Underlying().(*types.Array); ok {
				return TV(IntLit(at.Len()))
			}
		case *types.Array:
			return TV(IntLit(u.Len()))
		case *types.Chan:
			v := fr.R.Sc.FreshConst("chanlen", SInt)
			fr.R.Sc.Assume(Le(IntLit(0), v))
			return TV(v)
		}
		fr.R.unsupported("len of %s", cc.Args[0].Type())
	case "cap":
		x := arg(0)
		if _, ok := types.Unalias(cc.Args[0].Type()).Underlying().(*types.Slice); ok {
			return TV(app(SInt, "s-cap", x))
		}
		v := fr.R.Sc.FreshConst("cap", SInt)
		fr.R.Sc.Assume(Le(IntLit(0), v))
		return TV(v)
	case "append":
		return fr.builtinAppend(cc, pos)
	case "copy":
		return fr.builtinCopy(cc, pos)
	case "delete":
		m := arg(0)
		mt := types.Unalias(cc.Args[0].Type()).Underlying().(*types.Map)
		fr.mapDelete(m, mt, arg(1))
		return Val{Tuple: []Val{}}
	case "close":
		ch := arg(0)
		cc0 := h.Get(fr.st, chanClosedComp, ArraySort(SInt, SBool))
		fr.panicAt(pos, "close-of-closed-or-nil-channel", Or(Eq(ch, Nil), Select(cc0, ch, SBool)))
		h.Set(fr.st, chanClosedComp, fr.define("h", Store(cc0, ch, True)))
		return Val{Tuple: []Val{}}
	case "min", "max":
		x := arg(0)
		for i := 1; i < len(cc.Args); i++ {
			y := arg(i)
			var c Term
			if x.Sort == SString {
				c = app(SBool, "str.<=", x, y)
			} else if x.Sort == SInt {
				c = Le(x, y)
			} else {
				fr.R.unsupported("min/max on %s", x.Sort)
			}
			if b.Name() == "min" {
				x = Ite(c, x, y)
			} else {
				x = Ite(c, y, x)
			}
		}
		return TV(fr.define(b.Name(), x))
	case "clear":
		x := arg(0)
		if mt, ok := types.Unalias(cc.Args[0].Type()).Underlying().(*types.Map); ok {
			ks, _ := fr.mapSorts(mt)
			dn := mapDomComp(mt)
			domAll := h.Get(fr.st, dn, ArraySort(SInt, ArraySort(ks, SBool)))
			empty := T(fmt.Sprintf("((as const %s) false)", ArraySort(ks, SBool)), ArraySort(ks, SBool))
			h.Set(fr.st, dn, fr.define("h", Ite(Eq(x, Nil), domAll, Store(domAll, x, empty))))
			ln := h.Get(fr.st, mapLenComp(mt), ArraySort(SInt, SInt))
			h.Set(fr.st, mapLenComp(mt), fr.define("h", Ite(Eq(x, Nil), ln, Store(ln, x, IntLit(0)))))
			return Val{Tuple: []Val{}}
		}
		fr.R.unsupported("clear of %s", cc.Args[0].Type())
	case "print", "println":
		return Val{Tuple: []Val{}}
	case "recover":
		fr.R.note("recover() is not modelled (returns nil)")
		return TV(T("nil-iface", SIface))
	case "ssa:wrapnilchk":
		return fr.val(cc.Args[0])
	case "ssa:deferstack":
		return TV(IntLit(0))
	case "new":
		fr.R.unsupported("builtin new")
	}
	_ = tm
	fr.R.unsupported("builtin %s", b.Name())
	return Val{}
}

func (fr *Frame) builtinAppend(cc *ssa.CallCommon, pos token.Pos) Val {
	h := fr.R.Heap
	sc := fr.R.Sc
	s := fr.termOf(fr.val(cc.Args[0]))
	if len(cc.Args) == 1 {
		return TV(s)
	}
	st := types.Unalias(cc.Args[0].Type()).Underlying().(*types.Slice)
	es := fr.R.TM.SortOf(st.Elem())
	rowSort := ArraySort(SInt, es)
	name := elemsComp(st.Elem())
	E := h.Get(fr.st, name, ArraySort(SInt, rowSort))
	t := fr.termOf(fr.val(cc.Args[1]))
	sArr, sOff, sLen, sCap := app(SInt, "s-arr", s), app(SInt, "s-off", s), app(SInt, "s-len", s), app(SInt, "s-cap", s)
	var n Term
	single := false
	var elem Term
	var tRow, tOff Term
	if t.Sort == SString {
		n = app(SInt, "str.len", t)
	} else {
		n = app(SInt, "s-len", t)
		tRow = Select(E, app(SInt, "s-arr", t), rowSort)
		tOff = app(SInt, "s-off", t)
		// variadic call with exactly one element: slice of a fresh [1]T
		if sl, ok := cc.Args[1].(*ssa.Slice); ok {
			if al, ok := sl.X.(*ssa.Alloc); ok {
				if at, ok := types.Unalias(al.Type().(*types.Pointer).Elem()).Underlying().(*types.Array); ok && at.Len() == 1 {
					single = true
					elem = fr.define("ap.el", Select(tRow, tOff, es))
				}
			}
		}
	}
	newLen := fr.define("ap.len", Add(sLen, n))
	fits := fr.define("ap.fits", Le(newLen, sCap))
	rowS := Select(E, sArr, rowSort)
	start := fr.define("ap.at", Add(sOff, sLen))
	// in-place row
	var rowIn Term
	if single {
		rowIn = Store(rowS, start, elem)
	} else {
		rowIn = sc.FreshConst("ap.rowin", rowSort)
		i := "i?" + fmt.Sprint(sc.n)
		sc.n++
		sc.Assume(T(fmt.Sprintf("(forall ((%s Int)) (! (=> (or (< %s %s) (>= %s (+ %s %s))) (= (select %s %s) (select %s %s))) :pattern ((select %s %s))))",
			i, i, start.S, i, start.S, n.S, rowIn.S, i, rowS.S, i, rowIn.S, i), SBool))
		if tRow.S != "" {
			sc.Assume(T(fmt.Sprintf("(forall ((%s Int)) (! (=> (and (<= %s %s) (< %s (+ %s %s))) (= (select %s %s) (select %s (+ (- %s %s) %s)))) :pattern ((select %s %s))))",
				i, start.S, i, i, start.S, n.S, rowIn.S, i, tRow.S, i, start.S, tOff.S, rowIn.S, i), SBool))
		}
	}
	// reallocated row
	a2 := fr.alloc("ap.arr")
	row2 := sc.FreshConst("ap.row2", rowSort)
	{
		i := "i?" + fmt.Sprint(sc.n)
		sc.n++
		sc.Assume(T(fmt.Sprintf("(forall ((%s Int)) (! (=> (and (<= 0 %s) (< %s %s)) (= (select %s %s) (select %s (+ %s %s)))) :pattern ((select %s %s))))",
			i, i, i, sLen.S, row2.S, i, rowS.S, sOff.S, i, row2.S, i), SBool))
		if single {
			sc.Assume(Eq(Select(row2, sLen, es), elem))
		} else if tRow.S != "" {
			sc.Assume(T(fmt.Sprintf("(forall ((%s Int)) (! (=> (and (<= %s %s) (< %s %s)) (= (select %s %s) (select %s (+ (- %s %s) %s)))) :pattern ((select %s %s))))",
				i, sLen.S, i, i, newLen.S, row2.S, i, tRow.S, i, sLen.S, tOff.S, row2.S, i), SBool))
		}
	}
	if es == SSlice {
		// sums of element lengths: the in-place row agrees with the old one on the old window, the reallocated row
		// is a copy of it, and the appended elements extend the window
		fr.R.Trusted["axioms of sumlen (sum of element lengths over a window): non-negative, empty window is 0, split, one-element update"] = true
		oldSum := app(SInt, "sumlen", rowS, sOff, start)
		var added Term
		if single {
			added = app(SInt, "s-len", elem)
		} else if tRow.S != "" {
			added = app(SInt, "sumlen", tRow, tOff, Add(tOff, n))
		}
		if added.S != "" {
			rin := sc.Define("row", rowIn)
			sc.Assume(Eq(app(SInt, "sumlen", rin, sOff, Add(start, n)), Add(oldSum, added)))
			sc.Assume(Eq(app(SInt, "sumlen", row2, IntLit(0), newLen), Add(oldSum, added)))
			rowIn = rin
		}
	}
	c2 := sc.FreshConst("ap.cap", SInt)
	sc.Assume(Le(newLen, c2))
	res := fr.define("ap", Ite(fits, app(SSlice, "mk-slice", sArr, sOff, newLen, sCap), app(SSlice, "mk-slice", a2, IntLit(0), newLen, c2)))
	// appending nothing to a nil slice yields nil; in-place write on nil array cannot happen when n>0 because cap(nil)=0
	h.Set(fr.st, name, fr.define("h", Ite(fits, Ite(Eq(n, IntLit(0)), E, Store(E, sArr, rowIn)), Store(E, a2, row2))))
	return TV(res)
}

func (fr *Frame) builtinCopy(cc *ssa.CallCommon, pos token.Pos) Val {
	h := fr.R.Heap
	sc := fr.R.Sc
	d := fr.termOf(fr.val(cc.Args[0]))
	s := fr.termOf(fr.val(cc.Args[1]))
	st := types.Unalias(cc.Args[0].Type()).Underlying().(*types.Slice)
	es := fr.R.TM.SortOf(st.Elem())
	rowSort := ArraySort(SInt, es)
	name := elemsComp(st.Elem())
	E := h.Get(fr.st, name, ArraySort(SInt, rowSort))
	dLen := app(SInt, "s-len", d)
	var sLen Term
	if s.Sort == SString {
		sLen = app(SInt, "str.len", s)
	} else {
		sLen = app(SInt, "s-len", s)
	}
	n := fr.define("cp.n", Ite(Le(dLen, sLen), dLen, sLen))
	dArr, dOff := app(SInt, "s-arr", d), app(SInt, "s-off", d)
	rowD := Select(E, dArr, rowSort)
	rowN := sc.FreshConst("cp.row", rowSort)
	i := "i?" + fmt.Sprint(sc.n)
	sc.n++
	sc.Assume(T(fmt.Sprintf("(forall ((%s Int)) (! (=> (or (< %s %s) (>= %s (+ %s %s))) (= (select %s %s) (select %s %s))) :pattern ((select %s %s))))",
		i, i, dOff.S, i, dOff.S, n.S, rowN.S, i, rowD.S, i, rowN.S, i), SBool))
	if s.Sort == SSlice {
		rowSrc := Select(E, app(SInt, "s-arr", s), rowSort)
		sOff := app(SInt, "s-off", s)
		sc.Assume(T(fmt.Sprintf("(forall ((%s Int)) (! (=> (and (<= %s %s) (< %s (+ %s %s))) (= (select %s %s) (select %s (+ (- %s %s) %s)))) :pattern ((select %s %s))))",
			i, dOff.S, i, i, dOff.S, n.S, rowN.S, i, rowSrc.S, i, dOff.S, sOff.S, rowN.S, i), SBool))
	}
	h.Set(fr.st, name, fr.define("h", Ite(Eq(n, IntLit(0)), E, Store(E, dArr, rowN))))
	return TV(n)
}

// ---------- defers ----------

func (fr *Frame) runDefers() {
	for i := len(fr.defers) - 1; i >= 0; i-- {
		d := fr.defers[i]
		flag, ok := fr.st.ghost[fr.deferFlag(i)]
		if !ok || flag.S == "false" {
			continue
		}
		if flag.S == "true" {
			fr.call(d, &d.Call, d.Pos())
			continue
		}
		st0 := fr.st.Clone()
		cur0 := fr.cur
		fr.cur = fr.define("dg", And(cur0, flag))
		fr.call(d, &d.Call, d.Pos())
		st1, cur1 := fr.st, fr.cur
		fr.st = fr.R.Heap.Merge(fr.R.Sc, []Term{flag, Not(flag)}, []*State{st1, st0})
		fr.cur = fr.define("dg", Or(And(cur0, Not(flag)), cur1))
	}
}

// ---------- goroutines, channels ----------

func (fr *Frame) execGo(in *ssa.Go) {
	cc := &in.Call
	for _, a := range fr.callArgVals(cc) {
		fr.markEscaped(a)
	}
	if _, isB := cc.Value.(*ssa.Builtin); !isB && !cc.IsInvoke() {
		fr.markEscaped(fr.val(cc.Value))
	}
	names := fr.calleeNames(cc)
	fn := cc.StaticCallee()
	if fn != nil {
		if c := fr.R.Eng.ContractFor(fn); c != nil {
			args := fr.argVals(cc.Args)
			vars := fr.contractVars(c, fn, cc, args)
			if mc, ok := cc.Value.(*ssa.MakeClosure); ok {
				for i, fv := range fn.FreeVars {
					el := fv.Type().(*types.Pointer).Elem()
					bv := fr.val(mc.Bindings[i])
					vars[fv.Name()] = EV{T: fr.load(fr.locOf(bv, el)), Ty: el}
				}
			}
			ctx := &EvalCtx{fr: fr, st: fr.st, vars: vars, pkgPath: c.PkgPath, contract: c}
			for _, rq := range c.Requires {
				fr.R.addObl("requires@go:"+shortName(c.Name), rq.Label, Implies(fr.cur, ctx.Bool(rq.E)), rq.Src, &rq, in.Pos())
			}
		}
		if mc, ok := cc.Value.(*ssa.MakeClosure); ok {
			for i, b := range mc.Bindings {
				if closureWrites(fn, fn.FreeVars[i]) {
					bv := fr.val(b)
					if bv.Loc != nil && bv.Loc.Kind == LBox {
						fr.st.vol[bv.Loc.Ref.S] = true
					}
				}
			}
		}
	}
	if c := fr.C; c != nil {
		var gnames []string
		for _, n := range names {
			gnames = append(gnames, "go:"+n)
		}
		gvars := map[string]EV{}
		for i, a := range fr.callArgVals(cc) {
			gvars[fmt.Sprintf("$%d", i)] = valToEV(a, fr.argType(cc, i))
		}
		for _, aa := range c.Asserts {
			if nameMatches(gnames, aa.Callee) {
				ctx := fr.ctxHere().with(gvars)
				goal := Implies(fr.cur, ctx.Bool(aa.Clause.E))
				fr.R.addObl("assert", aa.Callee+":"+aa.Clause.Label, goal, aa.Clause.Src, &aa.Clause, in.Pos())
				fr.R.addCover("assert-"+aa.Clause.Label+"-reachable", fr.cur)
			}
		}
		for _, oc := range c.OnCalls {
			if nameMatches(gnames, oc.Callee) {
				ctx := fr.ctxHere()
				v := ctx.Eval(oc.E)
				fr.st.ghost["gv."+oc.Var] = fr.define("gv."+oc.Var, ctx.term(v))
			}
		}
	}
	if c := fr.R.Contract; c != nil && fr.isUnitCode() {
		for _, tr := range c.Tracks {
			// a go statement is logged only under an explicit `track go:f`: a plain `track f` counts calls made (and finished)
			// by the unit itself - starting a goroutine is not one (seed C03-10)
			if strings.HasPrefix(tr.Callee, "go:") && nameMatches(names, strings.TrimPrefix(tr.Callee, "go:")) {
				fr.logCall(tr.Alias, cc, Val{Tuple: []Val{}})
			}
		}
	}
	fr.R.note("go statement at %s: the new goroutine is not part of this unit", fr.R.pos(in.Pos()))
}

func (fr *Frame) onSend(in *ssa.Send, ch Term, x Val) {
	name := "send:" + valueSourceName(in.Chan)
	if c := fr.C; c != nil {
		for _, aa := range c.Asserts {
			if aa.Callee == name {
				ctx := fr.ctxHere()
				vars := map[string]EV{"$0": valToEV(x, in.X.Type())}
				goal := Implies(fr.cur, ctx.with(vars).Bool(aa.Clause.E))
				fr.R.addObl("assert", aa.Callee+":"+aa.Clause.Label, goal, aa.Clause.Src, &aa.Clause, in.Pos())
			}
		}
	}
	if c := fr.R.Contract; c != nil {
		for _, tr := range c.Tracks {
			if tr.Callee == name {
				key := "calls." + tr.Alias
				cnt, ok := fr.st.ghost[key]
				if !ok {
					cnt = IntLit(0)
				}
				fr.st.ghost[key] = fr.define("cnt", Add(cnt, IntLit(1)))
			}
		}
	}
	cc0 := fr.R.Heap.Get(fr.st, chanClosedComp, ArraySort(SInt, SBool))
	fr.panicAt(in.Pos(), "send-on-closed-channel", Select(cc0, ch, SBool))
}

// channelsMayHaveClosed: waiting on a channel lets every other goroutine run, and any of them may close channels
// this code does not control (a context being cancelled, a peer going away): before a receive or select the closed
// state of channels is forgotten monotonically (closed stays closed) - unless a held monitor protects it.
func (fr *Frame) channelsMayHaveClosed() {
	r := fr.R
	protects := func(m *Monitor) bool {
		for _, comp := range r.protectedComps(fr, m) {
			if comp == chanClosedComp {
				return true
			}
		}
		return false
	}
	if m := r.monitor; m != nil && fr.st.held[m.Name] && protects(m) {
		return
	}
	for _, h := range fr.st.locks {
		if protects(h.m) {
			return
		}
	}
	r.Heap.register(chanClosedComp, ArraySort(SInt, SBool))
	r.Heap.Havoc(fr.st, chanClosedComp)
}

func (fr *Frame) onRecv(in *ssa.UnOp, ch Term) Val {
	fr.channelsMayHaveClosed()
	elem := types.Unalias(in.X.Type()).Underlying().(*types.Chan).Elem()
	if fr.isCloseOnly(in.X) {
		cc0 := fr.R.Heap.Get(fr.st, chanClosedComp, ArraySort(SInt, SBool))
		fr.assume(Select(cc0, ch, SBool))
	}
	v := fr.freshTyped("recv", elem)
	if in.CommaOk {
		ok := fr.R.Sc.FreshConst("recvok", SBool)
		return Val{Tuple: []Val{TV(v), TV(ok)}}
	}
	return TV(v)
}

func (fr *Frame) execSelect(in *ssa.Select) {
	if in.Blocking {
		fr.channelsMayHaveClosed()
	}
	sc := fr.R.Sc
	idx := sc.FreshConst("sel", SInt)
	lo := int64(0)
	if !in.Blocking {
		lo = -1
	}
	sc.Assume(And(Le(IntLit(lo), idx), Lt(idx, IntLit(int64(len(in.States))))))
	out := Val{Tuple: []Val{TV(idx), TV(sc.FreshConst("selok", SBool))}}
	cc0 := fr.R.Heap.Get(fr.st, chanClosedComp, ArraySort(SInt, SBool))
	allCloseOnly := true
	var anyClosed []Term
	for i, s := range in.States {
		if s.Dir == types.RecvOnly && fr.isCloseOnly(s.Chan) {
			cl := Select(cc0, fr.termOf(fr.val(s.Chan)), SBool)
			fr.assume(Implies(Eq(idx, IntLit(int64(i))), cl))
			anyClosed = append(anyClosed, cl)
		} else {
			allCloseOnly = false
		}
	}
	if !in.Blocking && allCloseOnly && len(anyClosed) > 0 {
		// with a default clause, a ready (closed) channel is preferred over the default
		fr.assume(Implies(Or(anyClosed...), Not(Eq(idx, IntLit(-1)))))
	}
	for _, s := range in.States {
		if s.Dir == types.RecvOnly {
			elem := types.Unalias(s.Chan.Type()).Underlying().(*types.Chan).Elem()
			out.Tuple = append(out.Tuple, TV(fr.freshTyped("selv", elem)))
		}
	}
	// a send case of the select: the same at-call assertions and call counters as a plain send statement
	// ("send:<channel>"), the assertion for every execution that reaches the select (the case may be chosen), the
	// counter only when it is chosen
	for i, s := range in.States {
		if s.Dir != types.SendOnly {
			continue
		}
		name := "send:" + valueSourceName(s.Chan)
		if c := fr.C; c != nil {
			for _, aa := range c.Asserts {
				if aa.Callee == name {
					ctx := fr.ctxHere()
					vars := map[string]EV{"$0": valToEV(fr.val(s.Send), s.Send.Type())}
					goal := Implies(fr.cur, ctx.with(vars).Bool(aa.Clause.E))
					fr.R.addObl("assert", aa.Callee+":"+aa.Clause.Label, goal, aa.Clause.Src, &aa.Clause, in.Pos())
					fr.R.addCover("assert-"+aa.Clause.Label+"-reachable", fr.cur)
				}
			}
		}
		if c := fr.R.Contract; c != nil {
			for _, tr := range c.Tracks {
				if tr.Callee == name {
					key := "calls." + tr.Alias
					cnt, ok := fr.st.ghost[key]
					if !ok {
						cnt = IntLit(0)
					}
					fr.st.ghost[key] = fr.define("cnt", Ite(Eq(idx, IntLit(int64(i))), Add(cnt, IntLit(1)), cnt))
				}
			}
		}
	}
	fr.env[in] = out
}

// ---------- range over maps / strings ----------

func (fr *Frame) execRange(in *ssa.Range) {
	fr.env[in] = fr.val(in.X)
}

func (fr *Frame) execNext(in *ssa.Next) {
	sc := fr.R.Sc
	rng := in.Iter.(*ssa.Range)
	x := fr.termOf(fr.val(rng.X))
	ok := sc.FreshConst("next.ok", SBool)
	if in.IsString {
		k := sc.FreshConst("next.i", SInt)
		v := sc.FreshConst("next.r", SInt)
		if key, tracked := fr.strPos[rng]; tracked {
			if pos, have := fr.st.ghost[key]; have {
				// the loop is at byte position pos: a byte below 0x80 is its own rune of width one; anything else decodes
				// to a rune of at least 0x80 (U+FFFD for invalid input) that is one to four bytes wide
				ln := app(SInt, "str.len", x)
				b := app(SInt, "str.to_code", app(SString, "str.at", x, pos))
				w := sc.FreshConst("next.w", SInt)
				fr.assume(Eq(ok, Lt(pos, ln)))
				fr.assume(Implies(ok, And(Eq(k, pos), Le(IntLit(1), w), Le(w, IntLit(4)), Le(Add(pos, w), ln),
					Implies(Lt(b, IntLit(128)), And(Eq(v, b), Eq(w, IntLit(1)))),
					Implies(Le(IntLit(128), b), And(Le(IntLit(128), v), Le(v, IntLit(1114111)))))))
				fr.st.ghost[key] = fr.define("strpos", Ite(ok, Add(pos, w), pos))
				fr.env[in] = Val{Tuple: []Val{TV(ok), TV(k), TV(v)}}
				return
			}
		}
		fr.assume(Implies(ok, And(Le(IntLit(0), k), Lt(k, app(SInt, "str.len", x)))))
		fr.env[in] = Val{Tuple: []Val{TV(ok), TV(k), TV(v)}}
		return
	}
	mt := types.Unalias(rng.X.Type()).Underlying().(*types.Map)
	_, vs := fr.mapSorts(mt)
	k := fr.freshTyped("next.k", mt.Key())
	// loop bookkeeping ($visited) if this Next drives a contract loop
	if ri := fr.rangeInfo[rng]; ri != nil {
		vis := fr.st.ghost[ri.visKey]
		// ok <=> some key of the (current) domain is unvisited; the key chosen is such a key
		dom := fr.mapDom(x, mt)
		fr.assume(Implies(ok, And(Not(Eq(x, Nil)), Select(dom, k, SBool), Not(Select(vis, k, SBool)))))
		i := fmt.Sprintf("k?%d", sc.n)
		sc.n++
		ks := fr.R.TM.SortOf(mt.Key())
		fr.assume(Implies(Not(ok), T(fmt.Sprintf("(forall ((%s %s)) (! (=> (select %s %s) (select %s %s)) :pattern ((select %s %s))))", i, ks, dom.S, i, vis.S, i, dom.S, i), SBool)))
		if x.S != "" {
			fr.assume(Implies(Eq(x, Nil), Not(ok)))
		}
		v := fr.define("next.v", Select(fr.mapVals(x, mt), k, vs))
		fr.typeFacts(v, mt.Elem())
		fr.st.ghost[ri.visKey] = fr.define("vis", Ite(ok, Store(vis, k, True), vis))
		fr.st.ghost[ri.keyKey] = k
		fr.env[in] = Val{Tuple: []Val{TV(ok), TV(k), TV(v)}}
		return
	}
	dom := fr.mapDom(x, mt)
	fr.assume(Implies(ok, And(Not(Eq(x, Nil)), Select(dom, k, SBool))))
	v := fr.define("next.v", Select(fr.mapVals(x, mt), k, vs))
	fr.typeFacts(v, mt.Elem())
	fr.env[in] = Val{Tuple: []Val{TV(ok), TV(k), TV(v)}}
}

type rangeInfo struct {
	visKey string
	keyKey string
	mt     *types.Map
}

// mapLenFacts relates a map's length to its domain in the current state: non-negative, and at least one when some
// key is present (so length 0 means empty).
func (fr *Frame) mapLenFacts(m Term, mt *types.Map) {
	if strings.Contains(m.S, "?") {
		return
	}
	sc := fr.R.Sc
	ks, _ := fr.mapSorts(mt)
	dom := fr.mapDom(m, mt)
	ln := fr.mapLen(m, mt)
	key := "maplen|" + dom.S + "|" + ln.S
	if fr.R.factsDone[key] {
		return
	}
	fr.R.factsDone[key] = true
	k := fmt.Sprintf("k?%d", sc.n)
	sc.n++
	sc.lines = append(sc.lines, fmt.Sprintf("(assert (and (<= 0 %s) (forall ((%s %s)) (! (=> (select %s %s) (<= 1 %s)) :pattern ((select %s %s))))))", ln.S, k, ks, dom.S, k, ln.S, dom.S, k))
}
