package gov

import (
	"fmt"
	"go/token"
	"go/types"
	"sort"
	"strings"

	"golang.org/x/tools/go/ssa"
)

// Lock-style monitors: "monitor <name> lock <Type>.<mutexField> as <var>".
//
// The critical sections of the monitor are the code between x.<mutexField>.Lock() and x.<mutexField>.Unlock()
// (deferred or explicit) in any function of the module. Executing Lock in a unit forgets the protected components
// (other threads may have changed them while the lock was free) and assumes the invariant I(x); executing Unlock
// proves I(x) and the transition invariant T(x) relative to the state at Lock, and forgets the protected
// components again. While the lock is held the protected components survive heap havocs caused by library code and
// contracted callees (they cannot take the non-reentrant lock). Every function that locks the mutex is verified
// (with its own contract if it has one, with an empty one otherwise) or listed as a trusted section; a syntactic
// scan proves that protected fields are only touched while the lock is held (lockDisciplineUnit).

type lockHold struct {
	m     *Monitor
	owner Term
	snap  *State
	site  string // ordinal (source order, from 1) of the Lock call in the function that acquired it; c<k>_<n> for a site in the inlined function literal $k
}

// lockSite numbers the Lock calls of a monitor inside one function by source position.
func (e *Engine) lockSite(fn *ssa.Function, m *Monitor, pos token.Pos) int {
	var ps []token.Pos
	for _, b := range fn.Blocks {
		for _, in := range b.Instrs {
			if call, ok := in.(*ssa.Call); ok {
				if mm, op, _ := e.lockOpOf(&call.Call); mm == m && op == "lock" {
					ps = append(ps, call.Pos())
				}
			}
		}
	}
	sort.Slice(ps, func(i, j int) bool { return ps[i] < ps[j] })
	for i, p := range ps {
		if p == pos {
			return i + 1
		}
	}
	return 0
}

func (e *Engine) monitorByName(name string) *Monitor {
	for _, m := range e.DB.Monitors {
		if m.Name == name {
			return m
		}
	}
	return nil
}

// lockOpOf recognises x.<mu>.Lock() / Unlock() / RLock() / RUnlock() on a lock-style monitor.
func (e *Engine) lockOpOf(cc *ssa.CallCommon) (m *Monitor, op string, owner ssa.Value) {
	m, op, owner = e.lockOpOfAny(cc)
	if m != nil && m.DisciplineOnly {
		return nil, "", nil
	}
	return
}

// lockOpOfAny also reports discipline-only monitors (used by the discipline scan).
func (e *Engine) lockOpOfAny(cc *ssa.CallCommon) (m *Monitor, op string, owner ssa.Value) {
	fn := cc.StaticCallee()
	if fn == nil || len(cc.Args) == 0 {
		return nil, "", nil
	}
	switch fn.String() {
	case "(*sync.Mutex).Lock", "(*sync.RWMutex).Lock", "(*sync.RWMutex).RLock":
		op = "lock"
	case "(*sync.Mutex).Unlock", "(*sync.RWMutex).Unlock", "(*sync.RWMutex).RUnlock":
		op = "unlock"
	default:
		return nil, "", nil
	}
	fa, ok := cc.Args[0].(*ssa.FieldAddr)
	if !ok {
		return nil, "", nil
	}
	pt, ok := fa.X.Type().Underlying().(*types.Pointer)
	if !ok {
		return nil, "", nil
	}
	st, ok := types.Unalias(pt.Elem()).Underlying().(*types.Struct)
	if !ok {
		return nil, "", nil
	}
	for _, mon := range e.DB.Monitors {
		if mon.Kind != "lock" || st.Field(fa.Field).Name() != mon.MuField {
			continue
		}
		if typeKey(pt.Elem()) == shortPkgName(mon.PkgPath)+"."+mon.OwnerType {
			return mon, op, fa.X
		}
	}
	return nil, "", nil
}

func (r *FnRun) lockVars(fr *Frame, m *Monitor, owner Term) map[string]EV {
	ot, err := r.Eng.ResolveType("*"+m.OwnerType, m.PkgPath)
	if err != nil {
		r.unsupported("monitor %s: %v", m.Name, err)
	}
	vars := map[string]EV{m.StateVar: {T: owner, Ty: ot}}
	// the unit's own names stay visible (function-level ghost state is not)
	return vars
}

// lockCall gives Lock/Unlock on a monitored mutex its meaning.
func (fr *Frame) lockCall(cc *ssa.CallCommon, pos token.Pos) *Val {
	r := fr.R
	m, op, ownerV := r.Eng.lockOpOf(cc)
	if m == nil {
		return nil
	}
	if fr.st.locks == nil {
		fr.st.locks = map[string]*lockHold{}
	}
	owner := fr.termOf(fr.val(ownerV))
	unit := r.fnShortSafe()
	switch op {
	case "lock":
		if fr.st.held["$inconsistent"] {
			r.unsupported("monitor %s: lock state differs between merged paths", m.Name)
		}
		if h := fr.st.locks[m.Name]; h != nil {
			r.addOblNamed(unit+"#lock:"+m.Name+":not-reentrant", "lock", Implies(fr.cur, Not(Eq(h.owner, owner))),
				"a mutex that is already held by this code is locked again (self-deadlock)", nil, pos)
			r.unsupported("monitor %s: two objects of the owner type locked at once", m.Name)
		}
		fr.bumpTop()
		for _, comp := range r.protectedComps(fr, m) {
			r.Heap.Havoc(fr.st, comp)
			r.lockTouched[comp] = true
		}
		ctx := &EvalCtx{fr: fr, st: fr.st, vars: r.lockVars(fr, m, owner), pkgPath: m.PkgPath}
		for _, gi := range r.Eng.DB.GlobalInvs[m.PkgPath] {
			fr.assume(ctx.Bool(gi.E))
		}
		for _, inv := range m.Invariants {
			fr.assume(ctx.Bool(inv.E))
		}
		for _, as := range m.Assumes {
			fr.assume(ctx.Bool(as.E))
			r.Trusted["monitor assumption: "+as.Src] = true
		}
		fr.st.held[m.Name] = true
		site := fmt.Sprint(r.Eng.lockSite(fr.Fn, m, pos))
		if fr.Fn != r.Fn && fr.Fn.Parent() != nil && strings.HasPrefix(fr.Fn.Name(), r.Fn.Name()+"$") {
			// a Lock inside a function literal of the unit that is run in line (deferred or called): its own numbering
			site = "c" + strings.ReplaceAll(strings.TrimPrefix(fr.Fn.Name(), r.Fn.Name()+"$"), "$", "c") + "_" + site
		}
		fr.st.locks[m.Name] = &lockHold{m: m, owner: owner, snap: fr.st.Clone(), site: site}
		r.recordLockSnap("locked", fr)
		r.recordLockSnap("locked_"+m.Name, fr)
		r.recordLockSnap(fmt.Sprintf("locked_%s_%s", m.Name, site), fr)
		cname := fmt.Sprintf("lock:%s@%s-reachable-with-invariant", m.Name, site)
		if r.lockCovers == nil {
			r.lockCovers = map[string]Term{}
		}
		if prev, ok := r.lockCovers[cname]; ok {
			r.lockCovers[cname] = Or(prev, fr.cur)
		} else {
			r.lockCovers[cname] = fr.cur
			r.lockCoverOrd = append(r.lockCoverOrd, cname)
		}
	case "unlock":
		if fr.st.held["$inconsistent"] {
			r.unsupported("monitor %s: lock state differs between merged paths", m.Name)
		}
		h := fr.st.locks[m.Name]
		if h == nil {
			r.addOblNamed(unit+"#lock:"+m.Name+":unlock-of-held", "lock", Not(fr.cur), "Unlock of a mutex this code does not hold", nil, pos)
			return &Val{Tuple: []Val{}}
		}
		ctx := &EvalCtx{fr: fr, st: fr.st, old: h.snap, vars: r.lockVars(fr, m, h.owner), pkgPath: m.PkgPath}
		for _, inv := range m.Invariants {
			cl := inv
			r.addOblNamed(unit+"#mon-inv:"+inv.Label, "mon-inv", Implies(fr.cur, ctx.Bool(inv.E)), inv.Src, &cl, pos)
		}
		for _, tr := range m.Trans {
			cl := tr
			r.addOblNamed(unit+"#mon-trans:"+tr.Label, "mon-trans", Implies(fr.cur, ctx.Bool(tr.E)), tr.Src, &cl, pos)
		}
		r.recordLockSnap("unlocked", fr)
		r.recordLockSnap("unlocked_"+m.Name, fr)
		r.recordLockSnap(fmt.Sprintf("unlocked_%s_%s", m.Name, h.site), fr)
		delete(fr.st.held, m.Name)
		delete(fr.st.locks, m.Name)
		fr.bumpTop()
		for _, comp := range r.protectedComps(fr, m) {
			r.Heap.Havoc(fr.st, comp)
			r.lockTouched[comp] = true
		}
	}
	return &Val{Tuple: []Val{}}
}

// recordLockSnap keeps, per name, the state at the most recent execution of a Lock/Unlock: executions on
// different paths are merged under their path conditions.
func (r *FnRun) recordLockSnap(name string, fr *Frame) {
	cur := fr.st.Clone()
	if pr, ok := r.snapReached[name]; ok {
		r.snapReached[name] = Or(fr.cur, pr)
	} else {
		r.snapReached[name] = fr.cur
	}
	if prev, ok := r.snaps[name]; ok && fr.cur.S != "true" {
		r.snaps[name] = r.Heap.Merge(r.Sc, []Term{fr.cur, Not(fr.cur)}, []*State{cur, prev})
		return
	}
	r.snaps[name] = cur
}

// heldLockComps: the components protected by the lock-style monitors this state holds.
func (fr *Frame) heldLockComps() []string {
	var out []string
	var names []string
	for n := range fr.st.locks {
		names = append(names, n)
	}
	sort.Strings(names)
	for _, n := range names {
		out = append(out, fr.R.protectedComps(fr, fr.st.locks[n].m)...)
	}
	return out
}

// enterHolds: a unit whose contract says "holds <monitor> <owner>" starts inside the critical section.
func (r *FnRun) enterHolds(fr *Frame, c *Contract) {
	for _, h := range c.Holds {
		m := r.Eng.monitorByName(h.Mon)
		if m == nil || m.Kind != "lock" {
			r.unsupported("contract %s: holds names no lock-style monitor %q", c.Name, h.Mon)
		}
		if m.DisciplineOnly {
			continue // checked by the discipline scan only
		}
		ctx := fr.ctxHere()
		owner := ctx.term(ctx.Eval(h.Owner))
		if fr.st.locks == nil {
			fr.st.locks = map[string]*lockHold{}
		}
		fr.st.held[m.Name] = true
		fr.st.locks[m.Name] = &lockHold{m: m, owner: owner, snap: fr.st.Clone()}
		for _, comp := range r.protectedComps(fr, m) {
			r.lockTouched[comp] = true
		}
	}
}

// checkHoldsAtCall: calling a function whose contract says "holds m x" requires this code to hold m on x.
func (fr *Frame) checkHoldsAtCall(c *Contract, vars map[string]EV, pos token.Pos) {
	r := fr.R
	for _, h := range c.Holds {
		m := r.Eng.monitorByName(h.Mon)
		if m == nil || m.DisciplineOnly {
			continue
		}
		hold := fr.st.locks[m.Name]
		if hold == nil {
			r.addOblNamed(r.fnShortSafe()+"#holds@"+shortName(c.Name)+":"+m.Name, "lock", Not(fr.cur),
				shortName(c.Name)+" must be called with "+m.Name+" held", nil, pos)
			continue
		}
		ctx := &EvalCtx{fr: fr, st: fr.st, vars: vars, pkgPath: c.PkgPath, contract: c}
		owner := ctx.term(ctx.Eval(h.Owner))
		r.addOblNamed(r.fnShortSafe()+"#holds@"+shortName(c.Name)+":"+m.Name, "lock", Implies(fr.cur, Eq(owner, hold.owner)),
			shortName(c.Name)+" must be called with "+m.Name+" held on the object it works on", nil, pos)
	}
}

// LockSections lists the functions of the module that lock the monitor's mutex.
func (e *Engine) LockSections(m *Monitor) []*ssa.Function {
	var out []*ssa.Function
	var keys []string
	for k := range e.FnByName {
		keys = append(keys, k)
	}
	sort.Strings(keys)
	for _, k := range keys {
		fn := e.FnByName[k]
		if pkgOf(fn) == nil || !strings.HasPrefix(pkgOf(fn).Path(), ModulePath) {
			continue
		}
		found := false
		for _, b := range fn.Blocks {
			for _, in := range b.Instrs {
				if call, ok := in.(*ssa.Call); ok {
					if mm, op, _ := e.lockOpOf(&call.Call); mm == m && op == "lock" {
						found = true
					}
				}
			}
		}
		if found {
			out = append(out, fn)
		}
	}
	return out
}

func (e *Engine) isLockSection(m *Monitor, fn *ssa.Function) bool {
	e.lockSecMu.Lock()
	defer e.lockSecMu.Unlock()
	if e.lockSecs == nil {
		e.lockSecs = map[string]map[*ssa.Function]bool{}
	}
	set, ok := e.lockSecs[m.Name]
	if !ok {
		set = map[*ssa.Function]bool{}
		for _, f := range e.LockSections(m) {
			set[f] = true
		}
		e.lockSecs[m.Name] = set
	}
	return set[fn]
}

// mayReachHolder: can code reached from fn through static calls (and the function literals it creates) contain a
// function that works on lock-protected state without taking the lock itself - one declared "holds <monitor>" or
// exempted as "unpublished"? Every other module function that touches protected state is rejected by the
// discipline obligation, so if none is reachable the callee leaves the protected state of held locks alone.
func (e *Engine) mayReachHolder(fn *ssa.Function) bool {
	e.lockSecMu.Lock()
	defer e.lockSecMu.Unlock()
	if e.holderMemo == nil {
		e.holderMemo = map[*ssa.Function]bool{}
	}
	if v, ok := e.holderMemo[fn]; ok {
		return v
	}
	seen := map[*ssa.Function]bool{}
	var visit func(f *ssa.Function) bool
	visit = func(f *ssa.Function) bool {
		if f == nil || seen[f] {
			return false
		}
		seen[f] = true
		if c := e.ContractFor(f); c != nil && len(c.Holds) > 0 {
			return true
		}
		for _, m := range e.DB.Monitors {
			if containsStr(m.Unpublished, f.String()) {
				return true
			}
		}
		if len(seen) > 4000 {
			return true
		}
		for _, b := range f.Blocks {
			for _, in := range b.Instrs {
				switch in := in.(type) {
				case ssa.CallInstruction:
					if cal := in.Common().StaticCallee(); cal != nil && cal.Pkg != nil && e.InModule(cal.Pkg.Pkg) || cal != nil && cal.Parent() != nil || cal != nil && cal.Origin() != nil {
						if visit(cal) {
							return true
						}
					}
				case *ssa.MakeClosure:
					if visit(in.Fn.(*ssa.Function)) {
						return true
					}
				}
			}
		}
		return false
	}
	v := visit(fn)
	e.holderMemo[fn] = v
	return v
}

func containsStr(xs []string, x string) bool {
	for _, y := range xs {
		if y == x {
			return true
		}
	}
	return false
}

// protectedFields: the Type.field pairs named by fields(T.f) targets of the monitor.
func (m *Monitor) protectedFields() map[string]bool {
	out := map[string]bool{}
	for _, p := range m.Protects {
		if c, ok := p.(ECall); ok && c.Fun == "fields" && len(c.Args) == 1 {
			out[shortPkgName(m.PkgPath)+"."+typeExprString(c.Args[0])] = true
		}
	}
	return out
}

// LockDisciplineUnit: every access to a protected field happens at a point that is not reachable from the
// function entry or from an explicit Unlock without passing a Lock of the monitor's mutex (forward may-analysis
// over the SSA control-flow graph), or in a function declared to be called with the lock held, or on an object
// the function has just allocated / not yet published (listed).
func (e *Engine) LockDisciplineUnit(m *Monitor) *FnRun {
	r := e.NewRun(nil, nil)
	r.lemmaRun = true
	r.Sc.Declare("top0", SInt)
	prot := m.protectedFields()
	var bad []string
	var keys []string
	for k := range e.FnByName {
		keys = append(keys, k)
	}
	sort.Strings(keys)
	for _, k := range keys {
		fn := e.FnByName[k]
		if pkgOf(fn) == nil || !strings.HasPrefix(pkgOf(fn).Path(), ModulePath) || len(fn.Blocks) == 0 {
			continue
		}
		if c := e.ContractFor(fn); c != nil {
			holds := false
			for _, h := range c.Holds {
				if h.Mon == m.Name {
					holds = true
				}
			}
			if holds {
				continue
			}
		}
		if containsStr(m.Unpublished, fn.String()) {
			r.Trusted[fmt.Sprintf("monitor %s: %s touches protected fields only of an object it has not yet published", m.Name, shortName(fn.String()))] = true
			continue
		}
		isAccess := func(in ssa.Instruction) (string, bool) {
			if call, isCall := in.(ssa.CallInstruction); isCall {
				// calling a function that must run with the lock held is as good as touching the state
				if cal := call.Common().StaticCallee(); cal != nil {
					if cc := e.ContractFor(cal); cc != nil {
						for _, h := range cc.Holds {
							if h.Mon == m.Name {
								return "call of " + shortName(cal.String()), true
							}
						}
					}
				}
				return "", false
			}
			fa, ok := in.(*ssa.FieldAddr)
			if !ok {
				return "", false
			}
			pt, ok := fa.X.Type().Underlying().(*types.Pointer)
			if !ok {
				return "", false
			}
			st, ok := types.Unalias(pt.Elem()).Underlying().(*types.Struct)
			if !ok {
				return "", false
			}
			name := typeKey(pt.Elem()) + "." + st.Field(fa.Field).Name()
			if !prot[name] {
				return "", false
			}
			if al, ok := fa.X.(*ssa.Alloc); ok && al.Heap {
				return "", false // initialisation of a fresh object
			}
			// the field address is only used to take the mutex of a nested object, or unused
			used := false
			for _, ref := range *fa.Referrers() {
				if _, dbg := ref.(*ssa.DebugRef); !dbg {
					used = true
				}
			}
			return name, used
		}
		has := false
		for _, b := range fn.Blocks {
			for _, in := range b.Instrs {
				if _, ok := isAccess(in); ok {
					has = true
				}
			}
		}
		if !has {
			continue
		}
		unlockedIn := map[*ssa.BasicBlock]bool{fn.Blocks[0]: true}
		reached := map[*ssa.BasicBlock]bool{fn.Blocks[0]: true}
		work := []*ssa.BasicBlock{fn.Blocks[0]}
		flagged := map[string]bool{}
		for len(work) > 0 {
			b := work[len(work)-1]
			work = work[:len(work)-1]
			unlocked := unlockedIn[b]
			for _, in := range b.Instrs {
				if call, ok := in.(*ssa.Call); ok {
					if mm, op, _ := e.lockOpOfAny(&call.Call); mm == m {
						unlocked = op == "unlock"
					}
				}
				if name, ok := isAccess(in); ok && unlocked {
					flagged[fmt.Sprintf("%s touches %s without holding %s at %s", r.fnShort(fn), name, m.Name, r.pos(in.Pos()))] = true
				}
			}
			for _, s := range b.Succs {
				if !reached[s] || (unlocked && !unlockedIn[s]) {
					reached[s] = true
					if unlocked {
						unlockedIn[s] = true
					}
					work = append(work, s)
				}
			}
		}
		for f := range flagged {
			bad = append(bad, f)
		}
	}
	sort.Strings(bad)
	goal := True
	src := fmt.Sprintf("the state protected by %s.%s is touched only while it is locked (lock discipline, syntactic flow analysis)", m.OwnerType, m.MuField)
	if len(bad) > 0 {
		goal = False
		src += ": " + strings.Join(bad, "; ")
	}
	r.addOblNamed(m.OwnerType+"."+m.MuField+"#discipline:"+m.Name, "discipline", goal, src, nil, token.NoPos)
	// close-only channels of this monitor are checked by the shared scan
	return r
}
