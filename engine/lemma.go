package gov

import (
	"go/types"

	"golang.org/x/tools/go/ssa"
)

func (r *FnRun) emptyFrame() *Frame {
	st := &State{regs: map[*ssa.Alloc]Term{}, heap: map[string]Term{}, ghost: map[string]Term{}, held: map[string]bool{}, vol: map[string]bool{}}
	st.top = r.Sc.Declare("top0", SInt)
	fr := &Frame{R: r, env: map[ssa.Value]Val{}, names: map[string]Val{}, nameTys: map[string]types.Type{}, loopsUsed: map[int]bool{}}
	fr.st = st
	fr.entry = st
	fr.cur = True
	return fr
}

// assertAxioms adds the trusted global axioms to the script of a run.
func (r *FnRun) assertAxioms(fr *Frame) {
	for i, ax := range r.Eng.DB.Axioms {
		ctx := &EvalCtx{fr: fr, st: fr.st, vars: map[string]EV{}, pkgPath: r.Eng.DB.AxiomPkg[i]}
		r.Sc.Assume(ctx.Bool(ax.E))
		r.Trusted["axiom: "+ax.Src] = true
	}
}

// VerifyLemmas proves the lemmas tagged with a property (closed formulas over specification functions).
func (e *Engine) VerifyLemmas(prop string) (r *FnRun) {
	var ls []*Lemma
	for _, l := range e.DB.Lemmas {
		if hasProp(l.Props, prop) {
			ls = append(ls, l)
		}
	}
	if len(ls) == 0 {
		return nil
	}
	r = e.NewRun(nil, nil)
	r.lemmaRun = true
	defer func() {
		if x := recover(); x != nil {
			if u, ok := x.(unsupportedErr); ok {
				r.Unsupported = append(r.Unsupported, u.msg)
				return
			}
			panic(x)
		}
	}()
	fr := r.emptyFrame()
	r.topFrame = fr
	r.assertAxioms(fr)
	for _, l := range ls {
		ctx := &EvalCtx{fr: fr, st: fr.st, vars: map[string]EV{}, pkgPath: l.PkgPath}
		cl := l.E
		r.addObl("lemma", l.Name, ctx.Bool(l.E.E), l.E.Src, &cl, 0)
	}
	return r
}
