package gov

import (
	"fmt"
	"go/constant"
	"go/types"
	"sort"
	"strconv"
	"strings"

	"golang.org/x/tools/go/ssa"
)

// EV is the value of a specification expression: a term with its Go type where it has one.
type EV struct {
	T     Term
	Ty    types.Type
	Loc   *Loc
	Cell  *Loc // the name denotes the variable stored here (value read from the state being evaluated in)
	Tuple []EV
	IsNil bool // the untyped nil literal
}

// EvalCtx evaluates specification expressions against a symbolic state.
type EvalCtx struct {
	fr       *Frame
	st       *State // state heap reads refer to
	old      *State // state for old(...)
	logSt    *State // state the call logs are read from (set inside at(...))
	vars     map[string]EV
	pkgPath  string
	contract *Contract
	results  []EV
	depth    int
	bound    int
	errs     []string
}

func (c *EvalCtx) fail(format string, a ...any) {
	panic(unsupportedErr{"spec: " + fmt.Sprintf(format, a...)})
}

func (c *EvalCtx) with(vars map[string]EV) *EvalCtx {
	n := *c
	n.vars = map[string]EV{}
	for k, v := range c.vars {
		n.vars[k] = v
	}
	for k, v := range vars {
		n.vars[k] = v
	}
	return &n
}

func (c *EvalCtx) inState(st *State) *EvalCtx {
	n := *c
	n.st = st
	return &n
}

// logState: call logs (calls/callArg/callResult/lastResult) are read from the state the clause is evaluated in,
// also inside at(snapshot, ...): a snapshot fixes the heap and the locals, not the history recorded since.
func (c *EvalCtx) logState() *State {
	if c.logSt != nil {
		return c.logSt
	}
	return c.st
}

// withState runs f with the frame's current state temporarily replaced (heap helper functions read fr.st).
func (c *EvalCtx) withFrameState(f func()) {
	saved := c.fr.st
	savedCur := c.fr.cur
	c.fr.st = c.st
	defer func() { c.fr.st = saved; c.fr.cur = savedCur }()
	f()
}

// Bool evaluates a clause to a Bool term.
func (c *EvalCtx) Bool(e Expr) Term {
	v := c.Eval(e)
	if v.T.Sort != SBool {
		c.fail("expression %s is not boolean (%s)", ExprString(e), v.T.Sort)
	}
	return v.T
}

func (c *EvalCtx) Eval(e Expr) (out EV) {
	c.withFrameState(func() { out = c.eval(e) })
	return
}

func valToEV(v Val, ty types.Type) EV {
	if v.Tuple != nil {
		ev := EV{}
		tt, _ := ty.(*types.Tuple)
		for i, x := range v.Tuple {
			var et types.Type
			if tt != nil && i < tt.Len() {
				et = tt.At(i).Type()
			}
			ev.Tuple = append(ev.Tuple, valToEV(x, et))
		}
		return ev
	}
	return EV{T: v.T, Ty: ty, Loc: v.Loc}
}

func (c *EvalCtx) term(v EV) Term {
	if v.T.S != "" {
		return v.T
	}
	if v.Loc != nil {
		return c.fr.locTerm(v.Loc)
	}
	c.fail("value has no term")
	return Term{}
}

func (c *EvalCtx) eval(e Expr) EV {
	fr := c.fr
	tm := fr.R.TM
	switch e := e.(type) {
	case ELit:
		switch e.Kind {
		case "int":
			return EV{T: BigLit(e.Val), Ty: types.Typ[types.UntypedInt]}
		case "string":
			return EV{T: StrLit(e.Val), Ty: types.Typ[types.String]}
		case "bool":
			return EV{T: BoolLit(e.Val == "true"), Ty: types.Typ[types.Bool]}
		case "nil":
			return EV{IsNil: true, T: Nil}
		}
	case EIdent:
		return c.ident(e.Name)
	case EUn:
		x := c.eval(e.X)
		switch e.Op {
		case "!":
			return EV{T: Not(c.term(x)), Ty: types.Typ[types.Bool]}
		case "-":
			return EV{T: Sub(IntLit(0), c.term(x)), Ty: x.Ty}
		case "*":
			p, ok := types.Unalias(x.Ty).Underlying().(*types.Pointer)
			if !ok {
				c.fail("dereference of non-pointer %s", ExprString(e.X))
			}
			l := fr.locOf(Val{T: c.term(x)}, p.Elem())
			return EV{T: fr.load(l), Ty: p.Elem()}
		}
	case EBin:
		return c.binary(e)
	case ECond:
		cond := c.eval(e.C)
		a, b := c.eval(e.A), c.eval(e.B)
		a, b = c.unifyNil(a, b)
		return EV{T: Ite(c.term(cond), c.term(a), c.term(b)), Ty: a.Ty}
	case ESel:
		return c.selector(e)
	case EIndex:
		return c.index(e)
	case ECall:
		return c.call(e)
	case EQuant:
		return c.quant(e)
	case ETypeAssert:
		x := c.eval(e.X)
		ty, err := fr.R.Eng.ResolveType(e.Type, c.pkgPath)
		if err != nil {
			c.fail("%v", err)
		}
		xt := c.term(x)
		if xt.Sort != SIface {
			c.fail("type assertion on non-interface %s", ExprString(e.X))
		}
		s := tm.SortOf(ty)
		if s == SInt && isRefLike(ty) {
			return EV{T: app(SInt, "i-val", xt), Ty: ty}
		}
		_, unbox := fr.boxFns(s)
		return EV{T: app(s, unbox, app(SInt, "i-val", xt)), Ty: ty}
	case ESlice:
		x := c.eval(e.X)
		xt := c.term(x)
		if xt.Sort == SString {
			lo := IntLit(0)
			if e.Lo != nil {
				lo = c.term(c.eval(e.Lo))
			}
			hi := app(SInt, "str.len", xt)
			if e.Hi != nil {
				hi = c.term(c.eval(e.Hi))
			}
			return EV{T: app(SString, "str.substr", xt, lo, Sub(hi, lo)), Ty: x.Ty}
		}
		if xt.Sort == SSlice {
			lo := IntLit(0)
			if e.Lo != nil {
				lo = c.term(c.eval(e.Lo))
			}
			hi := app(SInt, "s-len", xt)
			if e.Hi != nil {
				hi = c.term(c.eval(e.Hi))
			}
			return EV{T: app(SSlice, "mk-slice", app(SInt, "s-arr", xt), Add(app(SInt, "s-off", xt), lo), Sub(hi, lo), Sub(app(SInt, "s-cap", xt), lo)), Ty: x.Ty}
		}
		c.fail("slice expression on %s", xt.Sort)
	}
	c.fail("cannot evaluate %s", ExprString(e))
	return EV{}
}

func (c *EvalCtx) ident(name string) EV {
	fr := c.fr
	if v, ok := c.vars[name]; ok && name != "$result" {
		if v.Cell != nil {
			return EV{T: fr.load(v.Cell), Ty: v.Ty}
		}
		return v
	}
	if name == "result" || name == "$result" {
		if len(c.results) == 1 {
			return c.results[0]
		}
		return EV{Tuple: c.results}
	}
	if c.contract != nil {
		for _, gv := range c.contract.GhostVars {
			if gv.Name == name {
				ty, err := fr.R.Eng.ResolveType(gv.Type, c.pkgPath)
				if err != nil {
					c.fail("%v", err)
				}
				if t, ok := c.st.ghost["gv."+name]; ok {
					return EV{T: t, Ty: ty}
				}
				return c.eval(gv.Init)
			}
		}
		for _, g := range c.contract.Ghosts {
			if g.Name == name {
				return c.eval(g.E)
			}
		}
	}
	// package-level object
	if p := fr.R.Eng.TypePkgs[c.pkgPath]; p != nil {
		if o := p.Scope().Lookup(name); o != nil {
			return c.object(o)
		}
	}
	if sf, ok := fr.R.Eng.DB.Funs[name]; ok && len(sf.Params) == 0 {
		return c.specFun(sf, nil)
	}
	c.fail("unknown name %q", name)
	return EV{}
}

func (c *EvalCtx) object(o types.Object) EV {
	fr := c.fr
	switch o := o.(type) {
	case *types.Const:
		switch o.Val().Kind() {
		case constant.String:
			return EV{T: StrLit(constant.StringVal(o.Val())), Ty: o.Type()}
		case constant.Int:
			return EV{T: BigLit(o.Val().ExactString()), Ty: o.Type()}
		case constant.Bool:
			return EV{T: BoolLit(constant.BoolVal(o.Val())), Ty: o.Type()}
		}
	case *types.Var:
		sp := fr.R.Eng.Prog.Package(o.Pkg())
		if sp != nil {
			if g, ok := sp.Members[o.Name()].(*ssa.Global); ok {
				l := &Loc{Kind: LGlobal, Glob: g, Type: o.Type(), Const: !fr.R.Eng.mutableGl[g] && !fr.R.inInit}
				return EV{T: fr.load(l), Ty: o.Type()}
			}
		}
	}
	c.fail("cannot use %s in a specification", o)
	return EV{}
}

func (c *EvalCtx) unifyNil(a, b EV) (EV, EV) {
	fix := func(n EV, other EV) EV {
		switch other.T.Sort {
		case SSlice:
			return EV{T: T("nil-slice", SSlice), Ty: other.Ty}
		case SIface:
			return EV{T: T("nil-iface", SIface), Ty: other.Ty}
		}
		return EV{T: Nil, Ty: other.Ty}
	}
	if a.IsNil && !b.IsNil {
		a = fix(a, b)
	} else if b.IsNil && !a.IsNil {
		b = fix(b, a)
	}
	return a, b
}

func (c *EvalCtx) binary(e EBin) EV {
	fr := c.fr
	boolT := types.Typ[types.Bool]
	switch e.Op {
	case "&&":
		return EV{T: And(c.Bool2(e.X), c.Bool2(e.Y)), Ty: boolT}
	case "||":
		return EV{T: Or(c.Bool2(e.X), c.Bool2(e.Y)), Ty: boolT}
	case "==>":
		return EV{T: Implies(c.Bool2(e.X), c.Bool2(e.Y)), Ty: boolT}
	case "<==>":
		return EV{T: Eq(c.Bool2(e.X), c.Bool2(e.Y)), Ty: boolT}
	case "in":
		k := c.eval(e.X)
		m := c.eval(e.Y)
		if m.Ty == nil && strings.HasPrefix(string(m.T.Sort), "(Array ") && strings.HasSuffix(string(m.T.Sort), " Bool)") {
			return EV{T: Select(m.T, c.term(k), SBool), Ty: boolT}
		}
		mt, ok := types.Unalias(m.Ty).Underlying().(*types.Map)
		if !ok {
			c.fail("'in' needs a map on the right: %s", ExprString(e.Y))
		}
		mr := c.term(m)
		return EV{T: And(Not(Eq(mr, Nil)), Select(fr.mapDom(mr, mt), c.term(k), SBool)), Ty: boolT}
	}
	x, y := c.eval(e.X), c.eval(e.Y)
	x, y = c.unifyNil(x, y)
	xt, yt := c.term(x), c.term(y)
	switch e.Op {
	case "==", "!=":
		var r Term
		switch {
		case xt.Sort == SSlice && (isNilSliceTerm(y.T) || isNilSliceTerm(x.T)):
			s := xt
			if isNilSliceTerm(x.T) {
				s = yt
			}
			r = Eq(app(SInt, "s-arr", s), IntLit(0))
		case xt.Sort == SIface:
			r = fr.ifaceEq(xt, yt)
		case strings.HasPrefix(string(xt.Sort), "TP_") && yt.Sort == SInt && yt.S == "0":
			// a value of type-parameter type against nil, inside the generic body: an uninterpreted fact about the
			// value (at instantiated call sites the comparison is the ordinary one on the type argument)
			name := "tpnil." + string(xt.Sort)
			fr.R.Sc.DeclareFun(name, []Sort{xt.Sort}, SBool)
			r = app(SBool, name, xt)
		default:
			if xt.Sort != yt.Sort {
				c.fail("comparison of %s and %s in %s", xt.Sort, yt.Sort, ExprString(e))
			}
			r = Eq(xt, yt)
		}
		if e.Op == "!=" {
			r = Not(r)
		}
		return EV{T: r, Ty: boolT}
	case "<", "<=", ">", ">=":
		if xt.Sort == SString {
			switch e.Op {
			case "<":
				return EV{T: app(SBool, "str.<", xt, yt), Ty: boolT}
			case "<=":
				return EV{T: app(SBool, "str.<=", xt, yt), Ty: boolT}
			case ">":
				return EV{T: app(SBool, "str.<", yt, xt), Ty: boolT}
			case ">=":
				return EV{T: app(SBool, "str.<=", yt, xt), Ty: boolT}
			}
		}
		if xt.Sort != SInt {
			// opaque ordered sorts use a declared strict order lt.<sort>
			name := "lt." + sortKey(xt.Sort)
			fr.R.Sc.DeclareFun(name, []Sort{xt.Sort, xt.Sort}, SBool)
			switch e.Op {
			case "<":
				return EV{T: app(SBool, name, xt, yt), Ty: boolT}
			case ">":
				return EV{T: app(SBool, name, yt, xt), Ty: boolT}
			case "<=":
				return EV{T: Or(app(SBool, name, xt, yt), Eq(xt, yt)), Ty: boolT}
			case ">=":
				return EV{T: Or(app(SBool, name, yt, xt), Eq(xt, yt)), Ty: boolT}
			}
		}
		return EV{T: app(SBool, e.Op, xt, yt), Ty: boolT}
	case "+":
		if xt.Sort == SString {
			return EV{T: app(SString, "str.++", xt, yt), Ty: x.Ty}
		}
		return EV{T: Add(xt, yt), Ty: x.Ty}
	case "-":
		return EV{T: Sub(xt, yt), Ty: x.Ty}
	case "*":
		return EV{T: app(SInt, "*", xt, yt), Ty: x.Ty}
	case "/":
		return EV{T: app(SInt, "godiv", xt, yt), Ty: x.Ty}
	case "%":
		return EV{T: app(SInt, "gomod", xt, yt), Ty: x.Ty}
	}
	c.fail("operator %s", e.Op)
	return EV{}
}

func (c *EvalCtx) Bool2(e Expr) Term {
	v := c.eval(e)
	t := c.term(v)
	if t.Sort != SBool {
		c.fail("expression %s is not boolean", ExprString(e))
	}
	return t
}

func (c *EvalCtx) selector(e ESel) EV {
	fr := c.fr
	// package-qualified name
	if id, ok := e.X.(EIdent); ok {
		if _, isVar := c.vars[id.Name]; !isVar {
			if p := fr.R.Eng.TypePkgs["name:"+id.Name]; p != nil && !c.isLocalName(id.Name) {
				if o := p.Scope().Lookup(e.Sel); o != nil {
					return c.object(o)
				}
			}
		}
	}
	x := c.eval(e.X)
	if x.Tuple != nil {
		i, err := strconv.Atoi(e.Sel)
		if err != nil || i >= len(x.Tuple) {
			c.fail("bad tuple selector %s", e.Sel)
		}
		return x.Tuple[i]
	}
	if x.Ty == nil {
		c.fail("selector on untyped value %s", ExprString(e.X))
	}
	obj, path, _ := types.LookupFieldOrMethod(x.Ty, true, nil, e.Sel)
	if obj == nil {
		// unexported field of another package: need the package
		if n := namedOf(x.Ty); n != nil {
			obj, path, _ = types.LookupFieldOrMethod(x.Ty, true, n.Obj().Pkg(), e.Sel)
		}
	}
	fld, ok := obj.(*types.Var)
	if !ok || fld == nil {
		c.fail("no field %s in %s", e.Sel, x.Ty)
	}
	cur := x
	for _, idx := range path {
		cur = c.field(cur, idx)
	}
	return cur
}

func namedOf(t types.Type) *types.Named {
	t = types.Unalias(t)
	if p, ok := t.Underlying().(*types.Pointer); ok {
		t = types.Unalias(p.Elem())
	}
	n, _ := t.(*types.Named)
	return n
}

func (c *EvalCtx) isLocalName(name string) bool {
	if c.contract != nil {
		for _, g := range c.contract.Ghosts {
			if g.Name == name {
				return true
			}
		}
	}
	return false
}

// field selects field idx of x (a pointer to struct or a struct value).
func (c *EvalCtx) field(x EV, idx int) EV {
	fr := c.fr
	t := types.Unalias(x.Ty)
	if p, ok := t.Underlying().(*types.Pointer); ok {
		st := types.Unalias(p.Elem()).Underlying().(*types.Struct)
		base := fr.locOf(Val{T: x.T, Loc: x.Loc}, p.Elem())
		if base.Kind == LBox && len(base.Path) == 0 {
			base = &Loc{Kind: LObj, Ref: base.Ref, Type: p.Elem()}
		}
		nl := *base
		nl.Path = append(append([]int{}, base.Path...), idx)
		ft := st.Field(idx).Type()
		if _, isStruct := types.Unalias(ft).Underlying().(*types.Struct); isStruct {
			// keep the address too so that nested selectors work on it
			return EV{T: fr.load(&nl), Ty: ft, Loc: nil}
		}
		return EV{T: fr.load(&nl), Ty: ft}
	}
	st, ok := t.Underlying().(*types.Struct)
	if !ok {
		c.fail("field access on %s", x.Ty)
	}
	if fr.isOpaqueStruct(t) {
		name := "fld." + sanitize(typeKey(t)+"."+st.Field(idx).Name())
		fs := fr.R.TM.SortOf(st.Field(idx).Type())
		fr.R.Sc.DeclareFun(name, []Sort{x.T.Sort}, fs)
		return EV{T: app(fs, name, x.T), Ty: st.Field(idx).Type()}
	}
	si := fr.R.TM.Struct(t)
	f := si.Fields[idx]
	return EV{T: app(f.Sort, f.Sel, c.term(x)), Ty: f.Type}
}

func (c *EvalCtx) index(e EIndex) EV {
	fr := c.fr
	x := c.eval(e.X)
	i := c.eval(e.I)
	xt := c.term(x)
	switch u := types.Unalias(x.Ty).Underlying().(type) {
	case *types.Map:
		_, vs := fr.mapSorts(u)
		present := And(Not(Eq(xt, Nil)), Select(fr.mapDom(xt, u), c.term(i), SBool))
		return EV{T: Ite(present, Select(fr.mapVals(xt, u), c.term(i), vs), fr.R.TM.Zero(u.Elem())), Ty: u.Elem()}
	case *types.Slice:
		es := fr.R.TM.SortOf(u.Elem())
		fr.R.Heap.NoteType(elemsComp(u.Elem()), u.Elem())
		arr := fr.R.Heap.Get(fr.st, elemsComp(u.Elem()), ArraySort(SInt, ArraySort(SInt, es)))
		return EV{T: Select(Select(arr, app(SInt, "s-arr", xt), ArraySort(SInt, es)), Add(app(SInt, "s-off", xt), c.term(i)), es), Ty: u.Elem()}
	case *types.Basic:
		if xt.Sort == SString {
			return EV{T: app(SInt, "str.to_code", app(SString, "str.at", xt, c.term(i))), Ty: types.Typ[types.Byte]}
		}
	}
	c.fail("index of %s", ExprString(e.X))
	return EV{}
}

func (c *EvalCtx) quant(e EQuant) EV {
	fr := c.fr
	vars := map[string]EV{}
	var decl []string
	for _, b := range e.Vars {
		ty, err := fr.R.Eng.ResolveType(b.Type, c.pkgPath)
		if err != nil {
			c.fail("%v", err)
		}
		c.bound++
		name := fmt.Sprintf("%s?%d", sanitize(b.Name), fr.R.Sc.n+c.bound)
		fr.R.Sc.n++
		s := fr.R.TM.SortOf(ty)
		vars[b.Name] = EV{T: T(name, s), Ty: ty}
		decl = append(decl, fmt.Sprintf("(%s %s)", name, s))
	}
	inner := c.with(vars)
	body := inner.Bool2(e.Body)
	q := "exists"
	if e.Forall {
		q = "forall"
	}
	bs := body.S
	if len(e.Triggers) > 0 {
		var pats []string
		for _, g := range e.Triggers {
			var ts []string
			for _, te := range g {
				ts = append(ts, inner.term(inner.eval(te)).S)
			}
			pats = append(pats, ":pattern ("+strings.Join(ts, " ")+")")
		}
		bs = "(! " + bs + " " + strings.Join(pats, " ") + ")"
	}
	return EV{T: T(fmt.Sprintf("(%s (%s) %s)", q, strings.Join(decl, " "), bs), SBool), Ty: types.Typ[types.Bool]}
}

// heapCompArg resolves a 'reads' component name to its current term.
func (c *EvalCtx) heapCompArgs(spec string, pkgPath string) []Term {
	return c.heapCompArgsTV(spec, pkgPath, nil)
}

func sortedTypeKeys(m map[string]types.Type) []string {
	var ks []string
	for k := range m {
		ks = append(ks, k)
	}
	sort.Strings(ks)
	return ks
}

func (c *EvalCtx) heapCompArgsTV(spec string, pkgPath string, tv map[string]types.Type) []Term {
	fr := c.fr
	h := fr.R.Heap
	spec = strings.TrimSpace(spec)
	switch {
	case strings.HasPrefix(spec, "elems[") && strings.HasSuffix(spec, "]"):
		ty, err := fr.R.Eng.ResolveTypeWith(spec[6:len(spec)-1], pkgPath, tv)
		if err != nil {
			c.fail("%v", err)
		}
		es := fr.R.TM.SortOf(ty)
		return []Term{h.Get(fr.st, elemsComp(ty), ArraySort(SInt, ArraySort(SInt, es)))}
	case strings.HasPrefix(spec, "map["):
		ty, err := fr.R.Eng.ResolveTypeWith(spec, pkgPath, tv)
		if err != nil {
			c.fail("%v", err)
		}
		mt := ty.(*types.Map)
		ks, vs := fr.mapSorts(mt)
		return []Term{h.Get(fr.st, mapDomComp(mt), ArraySort(SInt, ArraySort(ks, SBool))), h.Get(fr.st, mapValComp(mt), ArraySort(SInt, ArraySort(ks, vs)))}
	case strings.HasPrefix(spec, "field "):
		parts := strings.Split(strings.TrimSpace(spec[6:]), ".")
		fname := parts[len(parts)-1]
		ty, err := fr.R.Eng.ResolveType(strings.Join(parts[:len(parts)-1], "."), pkgPath)
		if err != nil {
			c.fail("%v", err)
		}
		st, ok := types.Unalias(ty).Underlying().(*types.Struct)
		if !ok {
			c.fail("reads field of non-struct %s", ty)
		}
		for i := 0; i < st.NumFields(); i++ {
			if st.Field(i).Name() == fname {
				fs := fr.R.TM.SortOf(st.Field(i).Type())
				return []Term{h.Get(fr.st, fieldComp(ty, fname), ArraySort(SInt, fs))}
			}
		}
		c.fail("no field %s in %s", fname, ty)
	case strings.HasPrefix(spec, "box["):
		ty, err := fr.R.Eng.ResolveTypeWith(spec[4:len(spec)-1], pkgPath, tv)
		if err != nil {
			c.fail("%v", err)
		}
		s := fr.R.TM.SortOf(ty)
		return []Term{h.Get(fr.st, boxComp(ty), ArraySort(SInt, s))}
	case spec == "chans":
		return []Term{h.Get(fr.st, chanClosedComp, ArraySort(SInt, SBool))}

	}
	c.fail("unknown heap component %q in reads clause", spec)
	return nil
}

func (c *EvalCtx) specFun(sf *SpecFun, args []EV) EV {
	fr := c.fr
	if len(args) != len(sf.Params) {
		c.fail("%s expects %d arguments, got %d", sf.Name, len(sf.Params), len(args))
	}
	tv := map[string]types.Type{}
	generic := false
	for i, p := range sf.Params {
		if strings.Contains(p.Type, "$") {
			generic = true
			unifyTypeVars(p.Type, args[i].Ty, tv)
		}
	}
	retTy, err := fr.R.Eng.ResolveTypeWith(sf.Ret, sf.PkgPath, tv)
	if err != nil {
		c.fail("%s: %v", sf.Name, err)
	}
	if sf.Body != nil {
		if c.depth > 12 {
			c.fail("predicate %s unfolds too deep (recursive?)", sf.Name)
		}
		vars := map[string]EV{}
		for i, p := range sf.Params {
			pt, err := fr.R.Eng.ResolveTypeWith(p.Type, sf.PkgPath, tv)
			if err != nil {
				c.fail("%s: %v", sf.Name, err)
			}
			a := args[i]
			if a.IsNil {
				a = EV{T: fr.R.TM.Zero(pt), Ty: pt}
			}
			a.Ty = pt
			vars[p.Name] = a
		}
		n := &EvalCtx{fr: fr, st: c.st, old: c.old, vars: vars, pkgPath: sf.PkgPath, depth: c.depth + 1, results: nil}
		v := n.eval(sf.Body)
		v.Ty = retTy
		return v
	}
	var sorts []Sort
	var ts []Term
	for i, p := range sf.Params {
		pt, err := fr.R.Eng.ResolveTypeWith(p.Type, sf.PkgPath, tv)
		if err != nil {
			c.fail("%s: %v", sf.Name, err)
		}
		s := fr.R.TM.SortOf(pt)
		a := args[i]
		var at Term
		if a.IsNil {
			at = fr.R.TM.Zero(pt)
		} else {
			at = c.term(a)
		}
		if at.Sort != s {
			c.fail("%s: argument %d has sort %s, want %s", sf.Name, i+1, at.Sort, s)
		}
		sorts = append(sorts, s)
		ts = append(ts, at)
	}
	for _, r := range sf.Reads {
		for _, t := range c.heapCompArgsTV(r, sf.PkgPath, tv) {
			sorts = append(sorts, t.Sort)
			ts = append(ts, t)
		}
	}
	rs := fr.R.TM.SortOf(retTy)
	name := "sf." + sanitize(sf.Name)
	if generic {
		for _, k := range sortedTypeKeys(tv) {
			name += "." + sanitize(sortKey(fr.R.TM.SortOf(tv[k])))
		}
	}
	fr.R.Sc.DeclareFun(name, sorts, rs)
	fr.R.useSpecFun(sf)
	if len(ts) == 0 {
		return EV{T: T(name, rs), Ty: retTy}
	}
	return EV{T: app(rs, name, ts...), Ty: retTy}
}

func (c *EvalCtx) call(e ECall) EV {
	fr := c.fr
	boolT := types.Typ[types.Bool]
	intT := types.Typ[types.Int]
	switch e.Fun {
	case "old":
		if c.old == nil {
			c.fail("old() has no pre-state here")
		}
		var out EV
		n := c.inState(c.old)
		n.withFrameState(func() { out = n.eval(e.Args[0]) })
		return out
	case "reached":
		// reached(snapshotName): this execution passed the point where the snapshot is taken
		g, ok := fr.R.snapReached[identName(e.Args[0])]
		if !ok {
			c.fail("no snapshot %q (is there a call site?)", identName(e.Args[0]))
		}
		return EV{T: g, Ty: types.Typ[types.Bool]}
	case "at":
		// at(snapshotName, expr): expr evaluated in the state saved by a 'snapshot' clause
		st, ok := fr.R.snaps[identName(e.Args[0])]
		if !ok {
			c.fail("no snapshot %q (is there a call site?)", identName(e.Args[0]))
		}
		var out EV
		n := c.inState(st)
		n.logSt = c.logState()
		n.withFrameState(func() { out = n.eval(e.Args[1]) })
		return out
	case "len":
		x := c.eval(e.Args[0])
		xt := c.term(x)
		switch xt.Sort {
		case SString:
			return EV{T: app(SInt, "str.len", xt), Ty: intT}
		case SSlice:
			return EV{T: app(SInt, "s-len", xt), Ty: intT}
		case SInt:
			if mt, ok := types.Unalias(x.Ty).Underlying().(*types.Map); ok {
				fr.mapLenFacts(xt, mt)
				return EV{T: Ite(Eq(xt, Nil), IntLit(0), fr.mapLen(xt, mt)), Ty: intT}
			}
		}
		c.fail("len of %s", ExprString(e.Args[0]))
	case "sumLens":
		// sum of len(x[i]) over a slice of slices
		x := c.eval(e.Args[0])
		st, ok := types.Unalias(x.Ty).Underlying().(*types.Slice)
		if !ok || fr.R.TM.SortOf(st.Elem()) != SSlice {
			c.fail("sumLens needs a slice of slices")
		}
		xt := c.term(x)
		E := fr.R.Heap.Get(fr.st, elemsComp(st.Elem()), ArraySort(SInt, ArraySort(SInt, SSlice)))
		off := app(SInt, "s-off", xt)
		return EV{T: app(SInt, "sumlen", Select(E, app(SInt, "s-arr", xt), ArraySort(SInt, SSlice)), off, Add(off, app(SInt, "s-len", xt))), Ty: intT}
	case "fresh":
		// fresh(x): the reference (or the backing array of a slice) did not exist in the pre-state
		if c.old == nil {
			c.fail("fresh() has no pre-state here")
		}
		x := c.eval(e.Args[0])
		xt := c.term(x)
		if xt.Sort == SSlice {
			xt = app(SInt, "s-arr", xt)
		}
		return EV{T: Lt(c.old.top, xt), Ty: boolT}
	case "inDom", "rawGet":
		// raw map reads without the nil-map guard: plain function applications, usable as quantifier triggers
		m := c.eval(e.Args[0])
		mt, ok := types.Unalias(m.Ty).Underlying().(*types.Map)
		if !ok {
			c.fail("%s needs a map", e.Fun)
		}
		k := c.term(c.eval(e.Args[1]))
		if e.Fun == "inDom" {
			return EV{T: Select(fr.mapDom(c.term(m), mt), k, SBool), Ty: boolT}
		}
		_, vs := fr.mapSorts(mt)
		return EV{T: Select(fr.mapVals(c.term(m), mt), k, vs), Ty: mt.Elem()}
	case "off":
		x := c.eval(e.Args[0])
		return EV{T: app(SInt, "s-off", c.term(x)), Ty: intT}
	case "absElem":
		// absElem(xs, j): the element at absolute position j of the backing array of xs
		x := c.eval(e.Args[0])
		st, ok := types.Unalias(x.Ty).Underlying().(*types.Slice)
		if !ok {
			c.fail("absElem needs a slice")
		}
		es := fr.R.TM.SortOf(st.Elem())
		fr.R.Heap.NoteType(elemsComp(st.Elem()), st.Elem())
		E := fr.R.Heap.Get(fr.st, elemsComp(st.Elem()), ArraySort(SInt, ArraySort(SInt, es)))
		return EV{T: Select(Select(E, app(SInt, "s-arr", c.term(x)), ArraySort(SInt, es)), c.term(c.eval(e.Args[1])), es), Ty: st.Elem()}
	case "backing":
		x := c.eval(e.Args[0])
		return EV{T: app(SInt, "s-arr", c.term(x)), Ty: intT}
	case "cap":
		x := c.eval(e.Args[0])
		return EV{T: app(SInt, "s-cap", c.term(x)), Ty: intT}
	case "calls":
		name := identName(e.Args[0])
		if t, ok := c.logState().ghost["calls."+name]; ok {
			return EV{T: t, Ty: intT}
		}
		return EV{T: IntLit(0), Ty: intT}
	case "callResult", "callArg":
		name := identName(e.Args[0])
		n := litInt(e.Args[1])
		k := 0
		if len(e.Args) > 2 {
			k = litInt(e.Args[2])
		}
		kind := "res"
		if e.Fun == "callArg" {
			kind = "arg"
		}
		key := fmt.Sprintf("%s.%s.%d.%d", kind, name, n, k)
		ty := fr.R.trackTypes[key]
		if t, ok := c.logState().ghost[key]; ok {
			return EV{T: t, Ty: ty}
		}
		if ty == nil {
			c.fail("%s(%s,%d,%d): no such tracked call (is there a 'track %s' clause and a call site?)", e.Fun, name, n, k, name)
		}
		// never called on this path: an arbitrary value
		return EV{T: fr.R.Sc.Declare("never."+sanitize(key), fr.R.TM.SortOf(ty)), Ty: ty}
	case "lastResult":
		name := identName(e.Args[0])
		k := 0
		if len(e.Args) > 1 {
			k = litInt(e.Args[1])
		}
		key := fmt.Sprintf("last.%s.%d", name, k)
		ty := fr.R.trackTypes[key]
		if t, ok := c.logState().ghost[key]; ok {
			return EV{T: t, Ty: ty}
		}
		if ty == nil {
			c.fail("lastResult(%s,%d): no such tracked call", name, k)
		}
		return EV{T: fr.R.Sc.Declare("never."+sanitize(key), fr.R.TM.SortOf(ty)), Ty: ty}
	case "now":
		// now(e) inside at(snapshot, ...): e is evaluated in the state the clause itself is evaluated in
		if c.logSt == nil {
			return c.eval(e.Args[0])
		}
		var out EV
		n := c.inState(c.logSt)
		n.logSt = nil
		n.withFrameState(func() { out = n.eval(e.Args[0]) })
		return out
	case "ghostOf":
		// ghostOf("name", x): specification-only boolean attribute of the object x (e.g. "armed" for a *time.Timer)
		x := c.eval(e.Args[1])
		gc := fr.R.Heap.Get(fr.st, ghostComp(e.Args[0]), ArraySort(SInt, SBool))
		return EV{T: Select(gc, c.term(x), SBool), Ty: boolT}
	case "closed":
		x := c.eval(e.Args[0])
		cc := fr.R.Heap.Get(fr.st, chanClosedComp, ArraySort(SInt, SBool))
		return EV{T: Select(cc, c.term(x), SBool), Ty: boolT}
	case "typeIs":
		// typeIs(x, T): the dynamic type of interface x is exactly T
		x := c.eval(e.Args[0])
		ty, err := fr.R.Eng.ResolveType(typeExprString(e.Args[1]), c.pkgPath)
		if err != nil {
			c.fail("%v", err)
		}
		return EV{T: Eq(app(SInt, "i-typ", c.term(x)), fr.R.TM.TypeCode(ty)), Ty: boolT}
	case "toInt64":
		x := c.term(c.eval(e.Args[0]))
		fr.useF64()
		fr.R.Sc.DeclareFun("int.of.f64", []Sort{SF64}, SInt)
		return EV{T: app(SInt, "int.of.f64", x), Ty: types.Typ[types.Int64]}
	case "toFloat64":
		x := c.term(c.eval(e.Args[0]))
		fr.useF64()
		return EV{T: app(SF64, "f64.of.int", x), Ty: types.Typ[types.Float64]}
	case "f64isNaN", "f64isInf":
		x := c.term(c.eval(e.Args[0]))
		fr.useF64()
		return EV{T: app(SBool, map[string]string{"f64isNaN": "f64.isnan", "f64isInf": "f64.isinf"}[e.Fun], x), Ty: boolT}
	case "f64trunc", "f64abs":
		x := c.term(c.eval(e.Args[0]))
		fr.useF64()
		return EV{T: app(SF64, map[string]string{"f64trunc": "f64.trunc", "f64abs": "f64.abs"}[e.Fun], x), Ty: types.Typ[types.Float64]}
	case "strlen":
		x := c.eval(e.Args[0])
		return EV{T: app(SInt, "str.len", c.term(x)), Ty: intT}
	case "hasPrefix":
		return EV{T: app(SBool, "str.prefixof", c.term(c.eval(e.Args[1])), c.term(c.eval(e.Args[0]))), Ty: boolT}
	case "hasSuffix":
		return EV{T: app(SBool, "str.suffixof", c.term(c.eval(e.Args[1])), c.term(c.eval(e.Args[0]))), Ty: boolT}
	case "contains":
		return EV{T: app(SBool, "str.contains", c.term(c.eval(e.Args[0])), c.term(c.eval(e.Args[1]))), Ty: boolT}
	case "min", "max":
		a, b := c.term(c.eval(e.Args[0])), c.term(c.eval(e.Args[1]))
		if e.Fun == "min" {
			return EV{T: Ite(Le(a, b), a, b), Ty: intT}
		}
		return EV{T: Ite(Le(a, b), b, a), Ty: intT}
	case "wrap64":
		return EV{T: app(SInt, "wrap64", c.term(c.eval(e.Args[0]))), Ty: intT}
	case "held":
		// Lock and Unlock of a discipline-only monitor keep their library meaning inside units: the lock state is
		// not tracked there, and held() would be constantly false (a vacuous `!held(m)`): refuse it.
		for _, m := range fr.R.Eng.DB.Monitors {
			if m.Name == identName(e.Args[0]) && m.DisciplineOnly {
				c.fail("held(%s): %s is a discipline-only monitor, its lock state is not tracked in units", m.Name, m.Name)
			}
		}
		return EV{T: BoolLit(c.st.held[identName(e.Args[0])]), Ty: boolT}
	case "local":
		// current value of a named local of the function (discouraged; loop invariants over locals)
		name := identName(e.Args[0])
		return c.localVar(name)
	case "iface":
		// iface(x): wrap a pointer-typed spec value as the interface value the code would build
		x := c.eval(e.Args[0])
		return EV{T: fr.makeInterface(Val{T: c.term(x)}, x.Ty), Ty: types.Universe.Lookup("any").Type()}
	}
	if sf, ok := fr.R.Eng.DB.Funs[e.Fun]; ok {
		args := make([]EV, len(e.Args))
		for i, a := range e.Args {
			args[i] = c.eval(a)
		}
		return c.specFun(sf, args)
	}
	c.fail("unknown specification function %q", e.Fun)
	return EV{}
}

func (c *EvalCtx) localVar(name string) EV {
	fr := c.fr
	// Several variables of the function may carry the name (shadowing in an inner block): local(x) is the one declared
	// first in the source, whatever order the maps below are walked in.
	var best *ssa.Alloc
	var bestEV EV
	consider := func(a *ssa.Alloc, ev func() EV) {
		if best == nil || a.Pos() < best.Pos() {
			best = a
			bestEV = ev()
		}
	}
	for a, t := range c.st.regs {
		if a.Comment == name && a.Parent() == fr.Fn {
			a, t := a, t
			consider(a, func() EV { return EV{T: t, Ty: a.Type().(*types.Pointer).Elem()} })
		}
	}
	// boxed locals
	for v, val := range fr.env {
		if a, ok := v.(*ssa.Alloc); ok && a.Comment == name && val.Loc != nil {
			a, val := a, val
			consider(a, func() EV { return EV{T: fr.load(val.Loc), Ty: a.Type().(*types.Pointer).Elem()} })
		}
	}
	if best != nil {
		return bestEV
	}
	var have []string
	for v := range fr.env {
		if a, ok := v.(*ssa.Alloc); ok {
			have = append(have, a.Comment)
		}
	}
	sort.Strings(have)
	c.fail("no local %q in scope of %s (locals: %v)", name, fr.Fn.Name(), have)
	return EV{}
}

func identName(e Expr) string {
	switch e := e.(type) {
	case EIdent:
		return e.Name
	case ESel:
		return identName(e.X) + "." + e.Sel
	case ELit:
		return e.Val
	}
	return ExprString(e)
}

func ghostComp(e Expr) string {
	return "Ghost." + strings.Trim(typeExprString(e), "\"")
}

func typeExprString(e Expr) string {
	switch e := e.(type) {
	case EIdent:
		return e.Name
	case ESel:
		return typeExprString(e.X) + "." + e.Sel
	case EUn:
		return e.Op + typeExprString(e.X)
	case ELit:
		return e.Val
	case EBin:
		if e.Op == "*" {
			return typeExprString(e.X) + "*" + typeExprString(e.Y)
		}
	}
	return ExprString(e)
}

func litInt(e Expr) int {
	if l, ok := e.(ELit); ok && l.Kind == "int" {
		n, _ := strconv.Atoi(l.Val)
		return n
	}
	return 0
}
