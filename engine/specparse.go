package gov

import (
	"fmt"
	"strconv"
	"strings"
	"unicode"
)

// ---------- expression AST ----------

type Expr interface{ exprString() string }

type (
	EIdent struct{ Name string }
	ELit   struct {
		Kind string // int, string, bool, nil
		Val  string
	}
	EUn  struct {
		Op string
		X  Expr
	}
	EBin struct {
		Op   string
		X, Y Expr
	}
	ECall struct {
		Fun  string
		Args []Expr
	}
	ESel struct {
		X   Expr
		Sel string
	}
	EIndex struct{ X, I Expr }
	ESlice struct{ X, Lo, Hi Expr }
	ECond  struct{ C, A, B Expr }
	EQuant struct {
		Forall   bool
		Vars     []Binder
		Body     Expr
		Triggers [][]Expr
	}
	ETypeAssert struct { // x.(T) used as "dynamic type is T" payload access
		X    Expr
		Type string
	}
)

type Binder struct{ Name, Type string }

func (e EIdent) exprString() string { return e.Name }
func (e ELit) exprString() string {
	if e.Kind == "string" {
		return strconv.Quote(e.Val)
	}
	return e.Val
}
func (e EUn) exprString() string  { return e.Op + e.X.exprString() }
func (e EBin) exprString() string { return "(" + e.X.exprString() + " " + e.Op + " " + e.Y.exprString() + ")" }
func (e ECall) exprString() string {
	as := make([]string, len(e.Args))
	for i, a := range e.Args {
		as[i] = a.exprString()
	}
	return e.Fun + "(" + strings.Join(as, ", ") + ")"
}
func (e ESel) exprString() string   { return e.X.exprString() + "." + e.Sel }
func (e EIndex) exprString() string { return e.X.exprString() + "[" + e.I.exprString() + "]" }
func (e ESlice) exprString() string {
	lo, hi := "", ""
	if e.Lo != nil {
		lo = e.Lo.exprString()
	}
	if e.Hi != nil {
		hi = e.Hi.exprString()
	}
	return e.X.exprString() + "[" + lo + ":" + hi + "]"
}
func (e ECond) exprString() string {
	return "(" + e.C.exprString() + " ? " + e.A.exprString() + " : " + e.B.exprString() + ")"
}
func (e EQuant) exprString() string {
	q := "exists"
	if e.Forall {
		q = "forall"
	}
	var vs []string
	for _, v := range e.Vars {
		vs = append(vs, v.Name+" "+v.Type)
	}
	return "(" + q + " " + strings.Join(vs, ", ") + " :: " + e.Body.exprString() + ")"
}
func (e ETypeAssert) exprString() string { return e.X.exprString() + ".(" + e.Type + ")" }

func ExprString(e Expr) string {
	if e == nil {
		return "<nil>"
	}
	return e.exprString()
}

// ---------- tokenizer ----------

type tok struct {
	kind string // id, int, str, op, eof
	s    string
}

func tokenize(src string) ([]tok, error) {
	var out []tok
	i := 0
	ops := []string{"<==>", "==>", "::", ":=", "&&", "||", "==", "!=", "<=", ">=", "++", "(", ")", "[", "]", "{", "}", ",", ".", ":", "?", "!", "<", ">", "+", "-", "*", "/", "%", "=", "&", "|", ";"}
	for i < len(src) {
		c := src[i]
		switch {
		case c == ' ' || c == '\t' || c == '\n' || c == '\r':
			i++
		case c == '"':
			j := i + 1
			for j < len(src) && src[j] != '"' {
				if src[j] == '\\' {
					j++
				}
				j++
			}
			if j >= len(src) {
				return nil, fmt.Errorf("unterminated string in %q", src)
			}
			s, err := strconv.Unquote(src[i : j+1])
			if err != nil {
				return nil, fmt.Errorf("bad string %s: %v", src[i:j+1], err)
			}
			out = append(out, tok{"str", s})
			i = j + 1
		case c >= '0' && c <= '9':
			j := i
			for j < len(src) && (src[j] >= '0' && src[j] <= '9' || src[j] == '_') {
				j++
			}
			out = append(out, tok{"int", strings.ReplaceAll(src[i:j], "_", "")})
			i = j
		case c == '_' || c == '$' || unicode.IsLetter(rune(c)):
			j := i
			for j < len(src) && (src[j] == '_' || src[j] == '$' || unicode.IsLetter(rune(src[j])) || unicode.IsDigit(rune(src[j]))) {
				j++
			}
			out = append(out, tok{"id", src[i:j]})
			i = j
		default:
			matched := false
			for _, op := range ops {
				if strings.HasPrefix(src[i:], op) {
					out = append(out, tok{"op", op})
					i += len(op)
					matched = true
					break
				}
			}
			if !matched {
				return nil, fmt.Errorf("unexpected character %q in %q", c, src)
			}
		}
	}
	out = append(out, tok{"eof", ""})
	return out, nil
}

// ---------- parser ----------

type parser struct {
	toks []tok
	p    int
	src  string
}

func ParseExpr(src string) (e Expr, err error) {
	toks, err := tokenize(src)
	if err != nil {
		return nil, err
	}
	ps := &parser{toks: toks, src: src}
	defer func() {
		if r := recover(); r != nil {
			if pe, ok := r.(parseErr); ok {
				err = fmt.Errorf("%s in %q", string(pe), src)
				return
			}
			panic(r)
		}
	}()
	e = ps.expr()
	if ps.peek().kind != "eof" {
		ps.fail("unexpected " + ps.peek().s)
	}
	return e, nil
}

type parseErr string

func (p *parser) fail(msg string) { panic(parseErr(msg)) }
func (p *parser) peek() tok        { return p.toks[p.p] }
func (p *parser) next() tok        { t := p.toks[p.p]; p.p++; return t }
func (p *parser) isOp(s string) bool {
	t := p.peek()
	return t.kind == "op" && t.s == s
}
func (p *parser) isID(s string) bool {
	t := p.peek()
	return t.kind == "id" && t.s == s
}
func (p *parser) expectOp(s string) {
	if !p.isOp(s) {
		p.fail("expected " + s + " got " + p.peek().s)
	}
	p.p++
}

func (p *parser) expr() Expr {
	if p.isID("forall") || p.isID("exists") {
		return p.quant()
	}
	return p.iff()
}

func (p *parser) quant() Expr {
	q := p.next().s
	var vars []Binder
	for {
		name := p.next()
		if name.kind != "id" {
			p.fail("binder name expected")
		}
		// type: tokens up to ',' or '::'
		var ty strings.Builder
		depth := 0
		for {
			t := p.peek()
			if t.kind == "eof" {
				p.fail("unterminated binder")
			}
			if depth == 0 && t.kind == "op" && (t.s == "," || t.s == "::") {
				break
			}
			if t.kind == "op" && (t.s == "[" || t.s == "(") {
				depth++
			}
			if t.kind == "op" && (t.s == "]" || t.s == ")") {
				depth--
			}
			ty.WriteString(t.s)
			p.p++
		}
		vars = append(vars, Binder{name.s, ty.String()})
		if p.isOp(",") {
			p.p++
			continue
		}
		break
	}
	p.expectOp("::")
	var trigs [][]Expr
	for p.isOp("{") {
		p.p++
		var group []Expr
		for !p.isOp("}") {
			group = append(group, p.cond())
			if p.isOp(",") {
				p.p++
			}
		}
		p.expectOp("}")
		trigs = append(trigs, group)
	}
	body := p.expr()
	return EQuant{Forall: q == "forall", Vars: vars, Body: body, Triggers: trigs}
}

func (p *parser) iff() Expr {
	x := p.implies()
	for p.isOp("<==>") {
		p.p++
		y := p.implies()
		x = EBin{"<==>", x, y}
	}
	return x
}

func (p *parser) implies() Expr {
	x := p.cond()
	if p.isOp("==>") {
		p.p++
		var y Expr
		if p.isID("forall") || p.isID("exists") {
			y = p.quant()
		} else {
			y = p.implies()
		}
		return EBin{"==>", x, y}
	}
	return x
}

func (p *parser) cond() Expr {
	c := p.or()
	if p.isOp("?") {
		p.p++
		a := p.cond()
		p.expectOp(":")
		b := p.cond()
		return ECond{c, a, b}
	}
	return c
}

func (p *parser) or() Expr {
	x := p.and()
	for p.isOp("||") {
		p.p++
		x = EBin{"||", x, p.and()}
	}
	return x
}

func (p *parser) and() Expr {
	x := p.cmp()
	for p.isOp("&&") {
		p.p++
		var y Expr
		if p.isID("forall") || p.isID("exists") {
			y = p.quant()
		} else {
			y = p.cmp()
		}
		x = EBin{"&&", x, y}
	}
	return x
}

func (p *parser) cmp() Expr {
	x := p.add()
	for {
		t := p.peek()
		if t.kind == "op" && (t.s == "==" || t.s == "!=" || t.s == "<" || t.s == "<=" || t.s == ">" || t.s == ">=") {
			p.p++
			x = EBin{t.s, x, p.add()}
			continue
		}
		if t.kind == "id" && t.s == "in" {
			p.p++
			x = EBin{"in", x, p.add()}
			continue
		}
		return x
	}
}

func (p *parser) add() Expr {
	x := p.mul()
	for {
		t := p.peek()
		if t.kind == "op" && (t.s == "+" || t.s == "-" || t.s == "++") {
			p.p++
			x = EBin{t.s, x, p.mul()}
			continue
		}
		return x
	}
}

func (p *parser) mul() Expr {
	x := p.unary()
	for {
		t := p.peek()
		if t.kind == "op" && (t.s == "*" || t.s == "/" || t.s == "%") {
			p.p++
			x = EBin{t.s, x, p.unary()}
			continue
		}
		return x
	}
}

func (p *parser) unary() Expr {
	if p.isOp("!") {
		p.p++
		return EUn{"!", p.unary()}
	}
	if p.isOp("-") {
		p.p++
		return EUn{"-", p.unary()}
	}
	if p.isOp("*") {
		p.p++
		return EUn{"*", p.unary()}
	}
	return p.postfix()
}

func (p *parser) postfix() Expr {
	x := p.primary()
	for {
		switch {
		case p.isOp("."):
			p.p++
			if p.isOp("(") {
				p.p++
				var ty strings.Builder
				depth := 0
				for !(depth == 0 && p.isOp(")")) {
					t := p.next()
					if t.kind == "eof" {
						p.fail("unterminated type assertion")
					}
					if t.s == "(" {
						depth++
					}
					if t.s == ")" {
						depth--
					}
					ty.WriteString(t.s)
				}
				p.expectOp(")")
				x = ETypeAssert{x, ty.String()}
				continue
			}
			t := p.next()
			if t.kind != "id" && t.kind != "int" {
				p.fail("selector expected")
			}
			x = ESel{x, t.s}
		case p.isOp("["):
			p.p++
			if p.isOp(":") {
				p.p++
				var hi Expr
				if !p.isOp("]") {
					hi = p.expr()
				}
				p.expectOp("]")
				x = ESlice{x, nil, hi}
				continue
			}
			i := p.expr()
			if p.isOp(":") {
				p.p++
				var hi Expr
				if !p.isOp("]") {
					hi = p.expr()
				}
				p.expectOp("]")
				x = ESlice{x, i, hi}
				continue
			}
			p.expectOp("]")
			x = EIndex{x, i}
		case p.isOp("("):
			// call: only on identifiers / qualified names
			name := ""
			switch f := x.(type) {
			case EIdent:
				name = f.Name
			case ESel:
				if id, ok := f.X.(EIdent); ok {
					name = id.Name + "." + f.Sel
				}
			}
			if name == "" {
				p.fail("call of non-name")
			}
			p.p++
			var args []Expr
			for !p.isOp(")") {
				args = append(args, p.expr())
				if p.isOp(",") {
					p.p++
				}
			}
			p.expectOp(")")
			x = ECall{name, args}
		default:
			return x
		}
	}
}

func (p *parser) primary() Expr {
	t := p.next()
	switch t.kind {
	case "int":
		return ELit{"int", t.s}
	case "str":
		return ELit{"string", t.s}
	case "id":
		switch t.s {
		case "true", "false":
			return ELit{"bool", t.s}
		case "nil":
			return ELit{"nil", "nil"}
		case "forall", "exists":
			p.p--
			return p.quant()
		}
		return EIdent{t.s}
	case "op":
		if t.s == "(" {
			e := p.expr()
			p.expectOp(")")
			return e
		}
	}
	p.fail("unexpected token " + t.s)
	return nil
}
