package gov

import (
	"bytes"
	"context"
	"fmt"
	"os"
	"os/exec"
	"path/filepath"
	"strings"
	"sync"
	"time"
)

type SolverResult struct {
	Solver string
	Status string // unsat, sat, unknown, timeout, error
	Time   float64
	Output string
}

type Result struct {
	Obl      *Obligation
	Cover    *Cover
	Status   string // proved, failed, undecided, error  | covers: sat, unsat, unknown
	Solver   string
	Time     float64
	All      []SolverResult
	Model    string
	File     string
	Size     int
	Disagree bool
}

type solverSpec struct {
	name string
	args func(file string, timeoutS int) []string
}

var solvers = []solverSpec{
	{"z3-new", func(f string, t int) []string { return []string{"z3-new", fmt.Sprintf("-T:%d", t), "smt.random_seed=1", f} }},
	{"z3", func(f string, t int) []string { return []string{"z3", fmt.Sprintf("-T:%d", t), "smt.random_seed=1", f} }},
	{"cvc5", func(f string, t int) []string {
		return []string{"cvc5", "--strings-exp", "--produce-models", "--seed=1", fmt.Sprintf("--tlimit=%d", t*1000), f}
	}},
	{"z3/seed0", func(f string, t int) []string { return []string{"z3", fmt.Sprintf("-T:%d", t), "smt.random_seed=0", f} }},
}

var rawSolvers = []solverSpec{solvers[2], solvers[0]}

// retrySolvers: the second attempt at an obligation nobody decided in time. Quantifier instantiation is sensitive to the
// random seed (a query one seed decides in half a second can time out with another), so the retry runs other seeds
// next to the first set. All seeds are fixed: a run is reproducible.
var retrySolvers = append(append([]solverSpec{}, solvers...),
	solverSpec{"z3/seed7", func(f string, t int) []string { return []string{"z3", fmt.Sprintf("-T:%d", t), "smt.random_seed=7", f} }},
	solverSpec{"z3-new/seed0", func(f string, t int) []string { return []string{"z3-new", fmt.Sprintf("-T:%d", t), "smt.random_seed=0", f} }},
	solverSpec{"z3-new/seed7", func(f string, t int) []string { return []string{"z3-new", fmt.Sprintf("-T:%d", t), "smt.random_seed=7", f} }},
)

func runSolver(ctx context.Context, s solverSpec, file string, timeoutS int) SolverResult {
	t0 := time.Now()
	a := s.args(file, timeoutS)
	cctx, cancel := context.WithTimeout(ctx, time.Duration(timeoutS+2)*time.Second)
	defer cancel()
	cmd := exec.CommandContext(cctx, a[0], a[1:]...)
	var out bytes.Buffer
	cmd.Stdout = &out
	cmd.Stderr = &out
	err := cmd.Run()
	el := time.Since(t0).Seconds()
	text := out.String()
	first := strings.TrimSpace(strings.SplitN(strings.TrimSpace(text), "\n", 2)[0])
	res := SolverResult{Solver: s.name, Time: el, Output: text}
	switch {
	case first == "unsat":
		res.Status = "unsat"
	case first == "sat":
		res.Status = "sat"
	case first == "unknown":
		res.Status = "unknown"
	case first == "timeout" || cctx.Err() != nil || strings.Contains(text, "timeout") || strings.Contains(text, "interrupted"):
		res.Status = "timeout"
	default:
		res.Status = "error"
		if err != nil && text == "" {
			res.Output = err.Error()
		}
	}
	return res
}

// Discharge runs the solvers on one script. race: first definitive answer wins; otherwise all run and must agree.
func discharge(file string, timeoutS int, race bool) (status, solver string, t float64, all []SolverResult, disagree bool) {
	return dischargeWith(solvers, file, timeoutS, race)
}

func dischargeWith(solvers []solverSpec, file string, timeoutS int, race bool) (status, solver string, t float64, all []SolverResult, disagree bool) {
	ctx, cancel := context.WithCancel(context.Background())
	defer cancel()
	// In a race, the other seeds join after a short head start when nobody has answered yet (most obligations are
	// decided within a fraction of a second and never need them).
	var late []solverSpec
	if race && len(solvers) == 4 && timeoutS > lateStartS {
		late = retrySolvers[len(solvers):]
	}
	ch := make(chan SolverResult, len(solvers)+len(late))
	for _, s := range solvers {
		go func(s solverSpec) { ch <- runSolver(ctx, s, file, timeoutS) }(s)
	}
	for _, s := range late {
		go func(s solverSpec) {
			select {
			case <-ctx.Done():
				ch <- SolverResult{Solver: s.name, Status: "unknown", Output: "not started: decided before its turn"}
			case <-time.After(lateStartS * time.Second):
				ch <- runSolver(ctx, s, file, timeoutS-lateStartS)
			}
		}(s)
	}
	var definitive *SolverResult
	for i := 0; i < len(solvers)+len(late); i++ {
		r := <-ch
		all = append(all, r)
		if r.Status == "unsat" || r.Status == "sat" {
			if definitive == nil {
				rr := r
				definitive = &rr
				if race {
					cancel()
					break
				}
			} else if definitive.Status != r.Status {
				disagree = true
			}
		}
	}
	if definitive != nil {
		return definitive.Status, definitive.Solver, definitive.Time, all, disagree
	}
	st := "unknown"
	for _, r := range all {
		if r.Status == "timeout" {
			st = "timeout"
		}
	}
	allErr := true
	for _, r := range all {
		if r.Status != "error" {
			allErr = false
		}
	}
	if allErr {
		st = "error"
	}
	return st, "", 0, all, false
}

const lateStartS = 2

type DischargeOpts struct {
	OutDir   string
	TimeoutS int
	Race     bool
	Workers  int
	NoRetry  bool
	Known    map[string]bool // obligations listed as known findings: expected not to discharge, so no long retry
}

// DischargeAll solves every obligation and cover in parallel.
func DischargeAll(obls []*Obligation, covers []*Cover, o DischargeOpts) (res []*Result, cres []*Result) {
	os.MkdirAll(o.OutDir, 0o755)
	type job struct {
		r    *Result
		text string
	}
	var jobs []job
	for _, ob := range obls {
		r := &Result{Obl: ob}
		var text string
		if ob.Raw != "" {
			text = ob.Raw
		} else {
			text = ob.Script.Render(ob.Pos, ob.Goal, true, nil)
		}
		r.File = filepath.Join(o.OutDir, sanitizeFile(ob.Name)+".smt2")
		r.Size = len(text)
		res = append(res, r)
		jobs = append(jobs, job{r, text})
	}
	for _, cv := range covers {
		r := &Result{Cover: cv}
		text := cv.Script.RenderSat(cv.Pos, cv.Cond)
		r.File = filepath.Join(o.OutDir, sanitizeFile(cv.Name)+".smt2")
		r.Size = len(text)
		cres = append(cres, r)
		jobs = append(jobs, job{r, text})
	}
	sem := make(chan struct{}, o.Workers)
	var wg sync.WaitGroup
	for _, j := range jobs {
		wg.Add(1)
		sem <- struct{}{}
		go func(j job) {
			defer wg.Done()
			defer func() { <-sem }()
			if err := os.WriteFile(j.r.File, []byte(j.text), 0o644); err != nil {
				j.r.Status = "error"
				return
			}
			limit := o.TimeoutS
			known := j.r.Cover == nil && j.r.Obl != nil && o.Known[j.r.Obl.Name]
			if known && limit > 5 {
				limit = 5
			}
			if j.r.Cover != nil && limit > 4 {
				// a vacuity cover only has to be *not unsat*; scripts with quantified axioms rarely get a model, and waiting
				// the full limit for "unknown" only slows the check down
				limit = 4
			}
			raw := j.r.Cover == nil && j.r.Obl != nil && j.r.Obl.Raw != ""
			var st, solver string
			var t float64
			var all []SolverResult
			var dis bool
			if raw {
				// hand-written lemma scripts (bit-vector / floating-point facts): bit-blasting is CPU-bound and not
				// seed-sensitive, two solvers are enough
				st, solver, t, all, dis = dischargeWith(rawSolvers, j.r.File, 9*limit, o.Race)
			} else {
				st, solver, t, all, dis = discharge(j.r.File, limit, o.Race)
			}
			for try := 0; st == "error" && try < 2; try++ {
				// every solver failed to start or died (a loaded machine): not an answer, ask again
				time.Sleep(500 * time.Millisecond)
				st, solver, t, all, dis = discharge(j.r.File, limit, o.Race)
			}
			if (st == "timeout" || st == "unknown") && j.r.Cover == nil && !o.NoRetry && !known {
				// one retry with a longer limit before reporting
				st, solver, t, all, dis = dischargeWith(retrySolvers, j.r.File, retryLimit(o), true)
			}
			j.r.Solver, j.r.Time, j.r.All, j.r.Disagree = solver, t, all, dis
			if j.r.Cover != nil {
				j.r.Status = st
				return
			}
			switch st {
			case "unsat":
				j.r.Status = "proved"
			case "sat":
				j.r.Status = "failed"
				for _, a := range all {
					if a.Status == "sat" {
						j.r.Model = a.Output
					}
				}
			case "error":
				j.r.Status = "error"
			default:
				j.r.Status = "undecided"
			}
		}(j)
	}
	wg.Wait()
	return
}

func sanitizeFile(s string) string {
	r := strings.NewReplacer("/", "_", "*", "", "(", "", ")", "", " ", "_", ":", "_", "#", "-", "$", "_", "@", "_at_", "[", "_", "]", "_", ",", "_", "~", "_")
	s = r.Replace(s)
	if len(s) > 150 {
		s = s[:150]
	}
	return s
}

func retryLimit(o DischargeOpts) int {
	if o.Race {
		return 3 * o.TimeoutS
	}
	return o.TimeoutS
}
