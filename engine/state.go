package gov

import (
	"fmt"
	"os"
	"go/types"
	"sort"
	"strings"

	"golang.org/x/tools/go/ssa"
)

// LocKind says what a symbolic address points into.
type LocKind int

const (
	LReg    LocKind = iota // non-escaping scalar local
	LObj                   // struct object on the heap (per-field arrays), Path selects a field (and nested by-value fields)
	LBox                   // heap cell holding a non-struct value
	LElem                  // slice / array element
	LGlobal                // package-level variable
)

// Loc is a symbolic address.
type Loc struct {
	Kind  LocKind
	Reg   *ssa.Alloc
	Ref   Term       // LObj/LBox: object reference; LElem: backing array reference
	Idx   Term       // LElem: absolute index in the backing array
	Type  types.Type // type of the thing the *base* address holds (struct type for LObj, elem type for LBox/LElem/LGlobal)
	Path  []int      // field path below the base
	Glob  *ssa.Global
	Const bool // package-level variable never assigned outside init
}

// Val is the engine-level value of an SSA value: a term, an address, or a tuple.
type Val struct {
	T     Term
	Loc   *Loc
	Tuple []Val
}

func TV(t Term) Val { return Val{T: t} }

// State is the symbolic store at one program point.
type State struct {
	regs   map[*ssa.Alloc]Term
	heap   map[string]Term
	epoch  int
	top    Term            // allocation watermark: every live reference is <= top
	ghost  map[string]Term // ghost registers (call logs, defer flags, user ghost variables)
	held   map[string]bool // monitors currently held (by monitor name)
	vol    map[string]bool // box references shared with forked goroutines (loads are nondeterministic)
	locks  map[string]*lockHold // lock-style monitors held: owner object and the state at Lock
}

func (s *State) Clone() *State {
	n := &State{regs: make(map[*ssa.Alloc]Term, len(s.regs)), heap: make(map[string]Term, len(s.heap)), epoch: s.epoch, top: s.top,
		ghost: make(map[string]Term, len(s.ghost)), held: make(map[string]bool, len(s.held)), vol: make(map[string]bool, len(s.vol))}
	for k, v := range s.regs {
		n.regs[k] = v
	}
	for k, v := range s.heap {
		n.heap[k] = v
	}
	for k, v := range s.ghost {
		n.ghost[k] = v
	}
	for k, v := range s.held {
		n.held[k] = v
	}
	for k, v := range s.vol {
		n.vol[k] = v
	}
	if s.locks != nil {
		n.locks = make(map[string]*lockHold, len(s.locks))
		for k, v := range s.locks {
			n.locks[k] = v
		}
	}
	return n
}

// Heap is the registry of heap component names (shared per function execution).
type Heap struct {
	sc    *Script
	sorts map[string]Sort // array name -> sort
	etype map[string]types.Type // Go type of the values a component holds (innermost element), where known
	// elemType remembers the Go type stored in a component where known (for load-time facts).
	epochN int
	// noQuantBase: the unit's contract has no quantifier, so the universally quantified typing facts of fresh
	// component versions are left out (every loaded value still gets its typing fact at the load)
	noQuantBase bool
}

func NewHeap(sc *Script) *Heap {
	return &Heap{sc: sc, sorts: map[string]Sort{}, etype: map[string]types.Type{}}
}

// NoteType records the Go type of the values held in a component (used for representation invariants).
func (h *Heap) NoteType(name string, t types.Type) {
	if _, ok := h.etype[name]; !ok && t != nil {
		h.etype[name] = t
	}
}

// valueFact is the representation invariant of a value of Go type t (as an SMT formula over v), or "".
func valueFact(t types.Type, v string, top string) string {
	t = types.Unalias(t)
	if lo, hi, ok := IntRange(t); ok {
		return fmt.Sprintf("(and (<= %s %s) (<= %s %s))", BigLit(lo).S, v, v, BigLit(hi).S)
	}
	switch t.Underlying().(type) {
	case *types.Pointer, *types.Map, *types.Chan, *types.Signature:
		return fmt.Sprintf("(and (<= 0 %s) (<= %s %s))", v, v, top)
	case *types.Slice:
		return fmt.Sprintf("(and (wf-slice %s) (<= (s-arr %s) %s))", v, v, top)
	case *types.Interface:
		if _, isTP := t.(*types.TypeParam); isTP {
			return ""
		}
		return fmt.Sprintf("(and (<= 0 (i-typ %s)) (=> (= (i-typ %s) 0) (= (i-val %s) 0)))", v, v, v)
	}
	return ""
}

// baseFacts states, for a freshly introduced version of a component, that every value stored in it satisfies the
// representation invariant of its Go type (references point to objects that already exist).
func (h *Heap) baseFacts(name string, arr Term, top Term) {
	if strings.HasPrefix(name, "MapDom.") {
		// the nil map has no keys (a store into it panics, so no version of the component gives it any)
		srt := string(arr.Sort)
		if strings.HasPrefix(srt, "(Array Int (Array ") {
			parts := splitSortArgs(srt[len("(Array Int ") : len(srt)-1])
			if len(parts) == 2 {
				h.sc.Assume(T(fmt.Sprintf("(= (select %s 0) ((as const (Array %s Bool)) false))", arr.S, parts[0]), SBool))
			}
		}
		return
	}
	if h.noQuantBase {
		return
	}
	t, ok := h.etype[name]
	if !ok {
		return
	}
	sort := string(arr.Sort)
	depth := 0
	switch {
	case strings.HasPrefix(sort, "(Array Int (Array "):
		depth = 2
	case strings.HasPrefix(sort, "(Array Int "):
		depth = 1
	default:
		if f := valueFact(t, arr.S, top.S); f != "" {
			h.sc.Assume(T(f, SBool))
		}
		return
	}
	if strings.HasPrefix(name, "MapDom.") {
		return
	}
	h.sc.n++
	i := fmt.Sprintf("hi?%d", h.sc.n)
	if depth == 1 {
		sel := fmt.Sprintf("(select %s %s)", arr.S, i)
		if f := valueFact(t, sel, top.S); f != "" {
			h.sc.Assume(T(fmt.Sprintf("(forall ((%s Int)) (! %s :pattern (%s)))", i, f, sel), SBool))
		}
		return
	}
	// (Array Int (Array K V))
	inner := sort[len("(Array Int "): len(sort)-1] // (Array K V)
	parts := splitSortArgs(inner)
	if len(parts) != 2 {
		return
	}
	k := fmt.Sprintf("hk?%d", h.sc.n)
	sel := fmt.Sprintf("(select (select %s %s) %s)", arr.S, i, k)
	if f := valueFact(t, sel, top.S); f != "" {
		h.sc.Assume(T(fmt.Sprintf("(forall ((%s Int) (%s %s)) (! %s :pattern (%s)))", i, k, parts[0], f, sel), SBool))
	}
}

// splitSortArgs splits "(Array K V)" into K and V.
func splitSortArgs(s string) []string {
	s = strings.TrimPrefix(s, "(Array ")
	s = strings.TrimSuffix(s, ")")
	depth := 0
	for i := 0; i < len(s); i++ {
		switch s[i] {
		case '(':
			depth++
		case ')':
			depth--
		case ' ':
			if depth == 0 {
				return []string{s[:i], s[i+1:]}
			}
		}
	}
	return nil
}

func (h *Heap) register(name string, sort Sort) {
	if old, ok := h.sorts[name]; ok {
		if old != sort {
			panic(fmt.Sprintf("heap component %s used at sorts %s and %s", name, old, sort))
		}
		return
	}
	h.sorts[name] = sort
}

// Get returns the current term of a heap component in s.
func (h *Heap) Get(s *State, name string, sort Sort) Term {
	h.register(name, sort)
	if t, ok := s.heap[name]; ok {
		return t
	}
	bn := fmt.Sprintf("%s@%d", sanitize(name), s.epoch)
	fresh := !h.sc.declared[bn]
	t := h.sc.Declare(bn, sort)
	if fresh {
		h.baseFacts(name, t, s.top)
	}
	return t
}

func (h *Heap) Set(s *State, name string, t Term) {
	h.register(name, t.Sort)
	s.heap[name] = t
}

// HavocAll forgets every heap component.
func (h *Heap) HavocAll(s *State) {
	var oldClosed Term
	if sort, ok := h.sorts[chanClosedComp]; ok {
		oldClosed = h.Get(s, chanClosedComp, sort)
	}
	h.epochN++
	s.epoch = h.epochN
	s.heap = map[string]Term{}
	if oldClosed.S != "" {
		h.closedMonotone(s, oldClosed)
	}
}

// closedMonotone: whatever else happens, a closed channel stays closed.
func (h *Heap) closedMonotone(s *State, old Term) {
	nw := h.sc.FreshConst("ChanClosed@m", old.Sort)
	h.sc.n++
	c := fmt.Sprintf("ch?%d", h.sc.n)
	h.sc.Assume(T(fmt.Sprintf("(forall ((%s Int)) (! (=> (select %s %s) (select %s %s)) :pattern ((select %s %s))))", c, old.S, c, nw.S, c, nw.S, c), SBool))
	s.heap[chanClosedComp] = nw
}

// Havoc forgets one component.
func (h *Heap) Havoc(s *State, name string) {
	sort, ok := h.sorts[name]
	if !ok {
		return
	}
	if name == chanClosedComp {
		h.closedMonotone(s, h.Get(s, name, sort))
		return
	}
	t := h.sc.FreshConst(sanitize(name)+"@h", sort)
	s.heap[name] = t
	h.baseFacts(name, t, s.top)
}

func (h *Heap) Names() []string {
	ns := make([]string, 0, len(h.sorts))
	for n := range h.sorts {
		ns = append(ns, n)
	}
	sort.Strings(ns)
	return ns
}

// Merge builds the state at a join point: each differing component becomes an ite over the incoming guards.
// conds[i] is the condition under which ins[i] is the incoming state (mutually exclusive, first n-1 are tested).
func (h *Heap) Merge(sc *Script, conds []Term, ins []*State) *State {
	if len(ins) == 1 {
		return ins[0].Clone()
	}
	out := ins[0].Clone()
	pick := func(prefix string, vals []Term) Term {
		same := true
		for _, v := range vals[1:] {
			if v.S != vals[0].S {
				same = false
			}
		}
		if same {
			return vals[0]
		}
		t := vals[len(vals)-1]
		for i := len(vals) - 2; i >= 0; i-- {
			t = Ite(conds[i], vals[i], t)
		}
		return sc.Define(prefix, t)
	}
	// epoch
	sameEpoch := true
	for _, in := range ins[1:] {
		if in.epoch != ins[0].epoch {
			sameEpoch = false
		}
	}
	names := map[string]bool{}
	if sameEpoch {
		for _, in := range ins {
			for n := range in.heap {
				names[n] = true
			}
		}
	} else {
		for n := range h.sorts {
			names[n] = true
		}
	}
	newHeap := map[string]Term{}
	if os.Getenv("GOV_DEBUG_MERGE") != "" {
		for _, n := range sortedBoolKeys(names) {
			for i, in := range ins {
				if _, ok := in.heap[n]; !ok && strings.Contains(n, "Connection.state") {
					fmt.Fprintf(os.Stderr, "MERGE[%s]: input %d/%d (epoch %d, sameEpoch=%v) lacks %s\n", DebugWhere, i, len(ins), in.epoch, sameEpoch, n)
				}
			}
		}
	}
	for _, n := range sortedBoolKeys(names) {
		vals := make([]Term, len(ins))
		for i, in := range ins {
			vals[i] = h.Get(in, n, h.sorts[n])
		}
		newHeap[n] = pick("m."+n, vals)
	}
	if !sameEpoch {
		h.epochN++
		out.epoch = h.epochN
	}
	out.heap = newHeap
	// registers: union of keys; a register missing on one side is dead there (allocated later), take any.
	regKeys := map[*ssa.Alloc]bool{}
	for _, in := range ins {
		for k := range in.regs {
			regKeys[k] = true
		}
	}
	for k := range regKeys {
		var vals []Term
		var cs []Term
		for i, in := range ins {
			if v, ok := in.regs[k]; ok {
				vals = append(vals, v)
				cs = append(cs, conds[i])
			}
		}
		if len(vals) == len(ins) {
			out.regs[k] = pick("m."+k.Comment, vals)
		} else {
			// defined on some paths only: keep a conditional over those, default to the last
			t := vals[len(vals)-1]
			for i := len(vals) - 2; i >= 0; i-- {
				t = Ite(cs[i], vals[i], t)
			}
			out.regs[k] = sc.Define("m."+k.Comment, t)
		}
	}
	gk := map[string]bool{}
	for _, in := range ins {
		for k := range in.ghost {
			gk[k] = true
		}
	}
	for _, k := range sortedBoolKeys(gk) {
		var sort Sort
		for _, in := range ins {
			if v, ok := in.ghost[k]; ok {
				sort = v.Sort
			}
		}
		vals := make([]Term, len(ins))
		for i, in := range ins {
			if v, ok := in.ghost[k]; ok {
				vals[i] = v
				continue
			}
			// absent on this path: counters are 0, flags false, logged values arbitrary
			switch {
			case strings.HasPrefix(k, "calls."):
				vals[i] = IntLit(0)
			case sort == SBool:
				vals[i] = False
			default:
				vals[i] = sc.Declare("never."+sanitize(k), sort)
			}
		}
		out.ghost[k] = pick("g."+k, vals)
	}
	tops := make([]Term, len(ins))
	for i, in := range ins {
		tops[i] = in.top
	}
	out.top = pick("top", tops)
	// held locks must agree
	for _, in := range ins[1:] {
		if fmt.Sprint(sortedBoolKeys(in.held)) != fmt.Sprint(sortedBoolKeys(ins[0].held)) {
			out.held["$inconsistent"] = true
		}
		for k, v := range in.locks {
			if w := ins[0].locks[k]; w != nil && w != v {
				out.held["$inconsistent"] = true
			}
		}
	}
	if ins[0].locks != nil {
		out.locks = map[string]*lockHold{}
		for k, v := range ins[0].locks {
			out.locks[k] = v
		}
	}
	for _, in := range ins {
		for k := range in.vol {
			out.vol[k] = true
		}
	}
	return out
}

func sortedBoolKeys(m map[string]bool) []string {
	ks := make([]string, 0, len(m))
	for k, v := range m {
		if v {
			ks = append(ks, k)
		}
	}
	sort.Strings(ks)
	return ks
}

// Heap component naming.

func fieldComp(t types.Type, fname string) string {
	return "F." + typeKey(t) + "." + fname
}

// Components are keyed by Go type (Go's type safety keeps differently typed cells apart); convertible types
// (same underlying non-struct type) share a key.
func compTypeKey(t types.Type) string {
	t = types.Unalias(t)
	switch u := t.(type) {
	case *types.Named:
		if _, isStruct := u.Underlying().(*types.Struct); isStruct {
			return typeKey(u)
		}
		if _, isIface := u.Underlying().(*types.Interface); isIface {
			return "iface"
		}
		return compTypeKey(u.Underlying())
	case *types.Pointer:
		return "*" + compTypeKey(u.Elem())
	case *types.Slice:
		return "[]" + compTypeKey(u.Elem())
	case *types.Map:
		return "map[" + compTypeKey(u.Key()) + "]" + compTypeKey(u.Elem())
	case *types.Interface:
		return "iface"
	case *types.Signature:
		return "func"
	case *types.Chan:
		return "chan"
	case *types.Basic:
		if u.Kind() == types.Uint8 {
			return "byte"
		}
		return u.Name()
	}
	return typeKey(t)
}

func boxComp(t types.Type) string   { return "Box." + compTypeKey(t) }
func elemsComp(t types.Type) string { return "Elems." + compTypeKey(t) }
func mapDomComp(mt *types.Map) string {
	return "MapDom." + compTypeKey(mt.Key()) + "." + compTypeKey(mt.Elem())
}
func mapValComp(mt *types.Map) string {
	return "MapVal." + compTypeKey(mt.Key()) + "." + compTypeKey(mt.Elem())
}

func mapLenComp(mt *types.Map) string {
	return "MapLen." + compTypeKey(mt.Key()) + "." + compTypeKey(mt.Elem())
}
const chanClosedComp = "ChanClosed"

func sortKey(s Sort) string {
	r := strings.NewReplacer("(", "", ")", "", " ", "_")
	return r.Replace(string(s))
}

var DebugWhere string
