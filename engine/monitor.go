package gov

import (
	"fmt"
	"go/token"
	"go/types"
	"sort"
	"strings"

	"golang.org/x/tools/go/ssa"
)

// Monitors: state that is only ever touched inside function literals handed to one locked function
// ("via", e.g. (*Connection).updateInFlight). Each literal is an *action*. An action unit is the via-function
// executed with its function parameter bound to that literal: it assumes the monitor invariant I at entry and
// must re-establish I and satisfy the two-state transition invariant T at exit. Because actions on one mutex are
// serialised and are the only code touching the protected state (discipline check), I holds whenever the lock is
// free and every observable change is a composition of T-steps, for every schedule.

// monitorFor returns the monitor whose via-function is fn.
func (e *Engine) monitorFor(fn *ssa.Function) *Monitor {
	if fn == nil {
		return nil
	}
	for _, m := range e.DB.Monitors {
		if m.ViaKey == fn.String() {
			return m
		}
	}
	return nil
}

// ActionLiterals finds, in source order, the function literals passed to the monitor's via-function.
func (e *Engine) ActionLiterals(m *Monitor) []*ssa.Function {
	via := e.FnByName[m.ViaKey]
	if via == nil {
		return nil
	}
	var out []*ssa.Function
	seen := map[*ssa.Function]bool{}
	var keys []string
	for k := range e.FnByName {
		keys = append(keys, k)
	}
	sort.Strings(keys)
	for _, k := range keys {
		fn := e.FnByName[k]
		if pkgOf(fn) == nil || pkgOf(fn).Path() != m.PkgPath {
			continue
		}
		for _, b := range fn.Blocks {
			for _, in := range b.Instrs {
				call, ok := in.(ssa.CallInstruction)
				if !ok || call.Common().StaticCallee() != via {
					continue
				}
				for _, a := range call.Common().Args {
					var lit *ssa.Function
					if mc, ok := a.(*ssa.MakeClosure); ok {
						lit = mc.Fn.(*ssa.Function)
					} else if f, ok := a.(*ssa.Function); ok && f.Parent() != nil {
						lit = f // a literal that captures nothing
					}
					if lit != nil && !seen[lit] {
						seen[lit] = true
						out = append(out, lit)
					}
				}
			}
		}
	}
	return out
}

// monitorEnv binds the monitor's state variable (and the receiver name) for evaluating I and T in the via-function.
func (r *FnRun) monitorVars(fr *Frame, m *Monitor) map[string]EV {
	via := fr.Fn
	vars := map[string]EV{}
	recv := via.Params[0]
	rv := fr.names[recv.Name()]
	vars[recv.Name()] = valToEV(rv, recv.Type())
	// s := &recv.<path>
	ctx := &EvalCtx{fr: fr, st: fr.st, vars: vars, pkgPath: m.PkgPath}
	loc := r.stateLoc(ctx, m)
	vars[m.StateVar] = EV{Loc: loc, Ty: types.NewPointer(pathType(loc))}
	return vars
}

// stateLoc evaluates the address expression of the protected state (a field path below the receiver).
func (r *FnRun) stateLoc(ctx *EvalCtx, m *Monitor) *Loc {
	var path []string
	e := m.StateExpr
	for {
		sel, ok := e.(ESel)
		if !ok {
			break
		}
		path = append([]string{sel.Sel}, path...)
		e = sel.X
	}
	base := ctx.Eval(e)
	p, ok := types.Unalias(base.Ty).Underlying().(*types.Pointer)
	if !ok {
		ctx.fail("monitor state: %s is not a pointer", ExprString(e))
	}
	l := &Loc{Kind: LObj, Ref: ctx.term(base), Type: p.Elem()}
	t := p.Elem()
	for _, f := range path {
		st := types.Unalias(t).Underlying().(*types.Struct)
		found := false
		for i := 0; i < st.NumFields(); i++ {
			if st.Field(i).Name() == f {
				l.Path = append(l.Path, i)
				t = st.Field(i).Type()
				found = true
			}
		}
		if !found {
			ctx.fail("monitor state: no field %s", f)
		}
	}
	return l
}

// VerifyAction generates the obligations of one action of a monitor.
func (e *Engine) VerifyAction(m *Monitor, lit *ssa.Function) (r *FnRun) {
	via := e.FnByName[m.ViaKey]
	c := e.ContractFor(lit) // optional: requires/ensures over the captured variables
	shell := &Contract{Key: lit.String(), Name: lit.Name(), PkgPath: m.PkgPath, File: m.File, Line: m.Line, Loops: map[int][]Clause{}, ModAll: true}
	if c != nil {
		cp := *c
		cp.ModAll = true
		shell = &cp
	}
	// the explicit panics in actions and in the via-function guard the protocol ("retire called twice",
	// "transitioned to non-idle when already done", ...): they must be unreachable
	shell.NoExplicitPanic = true
	if len(m.Tracks) > 0 {
		if shell == c {
			cp := *c
			shell = &cp
		}
		shell.Tracks = append(append([]Track{}, shell.Tracks...), m.Tracks...)
	}
	r = e.NewRun(via, shell)
	r.action = lit
	r.monitor = m
	defer func() {
		if x := recover(); x != nil {
			if u, ok := x.(unsupportedErr); ok {
				r.Unsupported = append(r.Unsupported, u.msg)
				return
			}
			panic(x)
		}
	}()
	r.Sc.Comment("action " + lit.String() + " of monitor " + m.Name)
	st := &State{regs: map[*ssa.Alloc]Term{}, heap: map[string]Term{}, ghost: map[string]Term{}, held: map[string]bool{}, vol: map[string]bool{}}
	st.top = r.Sc.Declare("top0", SInt)
	r.Sc.Assume(Le(IntLit(0), st.top))
	fr := &Frame{R: r, Fn: via, C: shell, env: map[ssa.Value]Val{}, names: map[string]Val{}, nameTys: map[string]types.Type{}, top: true, loopsUsed: map[int]bool{}}
	r.topFrame = fr
	fr.st = st
	fr.cur = True
	// receiver
	recv := via.Params[0]
	rt := r.Sc.Declare("p."+sanitize(recv.Name()), SInt)
	fr.typeFacts(rt, recv.Type())
	r.Sc.Assume(Lt(IntLit(0), rt))
	fr.env[recv] = TV(rt)
	fr.names[recv.Name()] = TV(rt)
	fr.nameTys[recv.Name()] = recv.Type()
	// the function parameter is this literal, closed over unknown cells
	clo := fr.alloc("action")
	ci := &closureInfo{fn: lit}
	capVars := map[string]EV{}
	for _, fv := range lit.FreeVars {
		cell := r.Sc.Declare("fv."+sanitize(fv.Name()), SInt)
		fr.typeFacts(cell, fv.Type())
		r.Sc.Assume(Lt(IntLit(0), cell))
		ci.bindings = append(ci.bindings, TV(cell))
		el := fv.Type().(*types.Pointer).Elem()
		capVars[fv.Name()] = EV{Cell: fr.locOf(TV(cell), el), Ty: el}
		capVars["&"+fv.Name()] = EV{T: cell, Ty: fv.Type()}
	}
	for i, a := range lit.FreeVars {
		for _, b := range lit.FreeVars[i+1:] {
			ea, eb := a.Type().(*types.Pointer).Elem(), b.Type().(*types.Pointer).Elem()
			if boxComp(ea) == boxComp(eb) {
				r.Sc.Assume(Not(Eq(T("fv."+sanitize(a.Name()), SInt), T("fv."+sanitize(b.Name()), SInt))))
			}
		}
	}
	r.closures[clo.S] = ci
	fr.env[via.Params[1]] = TV(clo)
	fr.names[via.Params[1].Name()] = TV(clo)
	fr.nameTys[via.Params[1].Name()] = via.Params[1].Type()
	r.actionVars = capVars
	fr.entry = st.Clone()
	r.preRegisterTracksIn(fr, lit)
	r.assertAxioms(fr)
	mv := r.monitorVars(fr, m)
	for k, v := range capVars {
		mv[k] = v
	}
	// a captured receiver of the same type is the via-function's receiver
	for _, fv := range lit.FreeVars {
		el := fv.Type().(*types.Pointer).Elem()
		if types.Identical(el, recv.Type()) {
			l := fr.locOf(TV(T("fv."+sanitize(fv.Name()), SInt)), el)
			r.Sc.Assume(Eq(fr.load(l), rt))
		}
	}
	r.monVars = mv
	ctx := &EvalCtx{fr: fr, st: fr.st, old: fr.entry, vars: mv, pkgPath: m.PkgPath, contract: shell}
	for _, gi := range e.DB.GlobalInvs[m.PkgPath] {
		fr.assume(ctx.Bool(gi.E))
	}
	for _, inv := range m.Invariants {
		fr.assume(ctx.Bool(inv.E))
	}
	for _, as := range m.Assumes {
		fr.assume(ctx.Bool(as.E))
		r.Trusted["monitor assumption: "+as.Src] = true
	}
	for _, rq := range shell.Requires {
		fr.assume(ctx.Bool(rq.E))
	}
	for _, as := range shell.Assumes {
		fr.assume(ctx.Bool(as.E))
		r.Trusted["assumption of "+lit.Name()+": "+as.Src] = true
	}
	r.addCover("invariant-and-requires-satisfiable", True)
	fr.entry = fr.st.Clone()
	fr.st.held[m.Name] = true
	retGuard, out, _ := fr.runBody(fr.st, True)
	if retGuard.S == "false" {
		out = fr.entry
	}
	fr.st = out
	fr.cur = retGuard
	post := &EvalCtx{fr: fr, st: out, old: fr.entry, vars: mv, pkgPath: m.PkgPath, contract: shell}
	for _, inv := range m.Invariants {
		cl := inv
		r.addOblNamed(r.fnShort(lit)+"#mon-inv:"+inv.Label, "mon-inv", Implies(retGuard, post.Bool(inv.E)), inv.Src, &cl, lit.Pos())
	}
	for _, tr := range m.Trans {
		cl := tr
		r.addOblNamed(r.fnShort(lit)+"#mon-trans:"+tr.Label, "mon-trans", Implies(retGuard, post.Bool(tr.E)), tr.Src, &cl, lit.Pos())
	}
	for _, en := range shell.Ensures {
		cl := en
		r.addOblNamed(r.fnShort(lit)+"#ensures:"+en.Label, "ensures", Implies(retGuard, post.Bool(en.E)), en.Src, &cl, lit.Pos())
	}
	r.addCover("returns-reachable", retGuard)
	return r
}

func (r *FnRun) addOblNamed(name, kind string, goal Term, src string, cl *Clause, where token.Pos) {
	r.nameCount[name]++
	if n := r.nameCount[name]; n > 1 {
		name = fmt.Sprintf("%s~%d", name, n)
	}
	o := &Obligation{Name: name, Kind: kind, Pos: r.Sc.Pos(), Goal: goal, Src: src, Where: r.pos(where), Fn: r.fnShortSafe(), Script: r.Sc}
	if cl != nil {
		o.File, o.Line = cl.File, cl.Line
	}
	r.Obls = append(r.Obls, o)
}

// protectedComps lists the heap components a monitor protects.
func (r *FnRun) protectedComps(fr *Frame, m *Monitor) []string {
	var out []string
	for _, p := range m.Protects {
		cs, ok := fr.targetComps(p, map[string]types.Type{}, m.PkgPath)
		if !ok {
			r.unsupported("monitor %s: cannot resolve protects target %s", m.Name, ExprString(p))
		}
		out = append(out, cs...)
	}
	return out
}

// ---------- hooks called by the executor ----------

func (r *FnRun) checkMonitorAccess(fr *Frame, l *Loc, pos token.Pos, write bool) {}

// monitorCall: a call of a via-function with a function literal, inside some other unit. The caller does not hold
// the lock before or after, so the protected state is arbitrary around the call; the literal's contract (over the
// captured variables) is what the caller may use.
func (r *FnRun) monitorCall(fr *Frame, fn *ssa.Function, cc *ssa.CallCommon, args []Val, pos token.Pos) *Val {
	m := r.Eng.monitorFor(fn)
	if m == nil || r.action != nil && fn == r.Fn {
		return nil
	}
	var lit *ssa.Function
	var bindings []Val
	for _, a := range cc.Args {
		if mc, ok := a.(*ssa.MakeClosure); ok {
			lit = mc.Fn.(*ssa.Function)
			for _, b := range mc.Bindings {
				bindings = append(bindings, fr.val(b))
			}
		} else if f, ok := a.(*ssa.Function); ok && f.Parent() != nil {
			lit = f
		}
	}
	if lit == nil {
		r.note("call of %s with a function value that is not a literal: heap havocked", m.Via)
		v := fr.havocCall(cc, args, true, pos)
		return &v
	}
	c := r.Eng.ContractFor(lit)
	// captured variables: current values
	vars := map[string]EV{}
	for i, fv := range lit.FreeVars {
		el := fv.Type().(*types.Pointer).Elem()
		vars[fv.Name()] = EV{Cell: fr.locOf(bindings[i], el), Ty: el}
		vars["&"+fv.Name()] = valToEV(bindings[i], fv.Type())
	}
	// receiver and state variable
	recvName := fn.Params[0].Name()
	vars[recvName] = valToEV(args[0], fn.Params[0].Type())
	pre := fr.st.Clone()
	if c != nil {
		c.Used = true
		r.UsedContracts[c.Key] = true
		ctx := &EvalCtx{fr: fr, st: fr.st, vars: vars, pkgPath: m.PkgPath, contract: c}
		ctx.vars[m.StateVar] = EV{Loc: r.stateLoc(ctx, m), Ty: nil}
		ctx.vars[m.StateVar] = EV{Loc: ctx.vars[m.StateVar].Loc, Ty: types.NewPointer(pathType(ctx.vars[m.StateVar].Loc))}
		for _, rq := range c.Requires {
			if exprMentions(rq.E, m.StateVar) {
				// a precondition on the protected state cannot be established by a caller that does not hold the lock
				r.addObl("requires@"+lit.Name(), rq.Label, False, rq.Src+"  (mentions the protected state: not establishable outside the lock)", &rq, pos)
				continue
			}
			r.addObl("requires@"+lit.Name(), rq.Label, Implies(fr.cur, ctx.Bool(rq.E)), rq.Src, &rq, pos)
		}
	}
	// effects: other threads and this action may change the protected state; the action may write captured variables
	fr.bumpTop()
	for _, comp := range r.protectedComps(fr, m) {
		r.Heap.Havoc(fr.st, comp)
		r.lockTouched[comp] = true // monitor state: other goroutines may change it whenever the lock is free
	}
	for i, fv := range lit.FreeVars {
		if closureWrites(lit, fv) {
			el := fv.Type().(*types.Pointer).Elem()
			fr.store(fr.locOf(bindings[i], el), fr.freshTyped("cap."+fv.Name(), el))
		}
	}
	if c != nil {
		if c.ModAll && false {
			r.Heap.HavocAll(fr.st)
		}
		pctx := &EvalCtx{fr: fr, st: pre, vars: vars, pkgPath: m.PkgPath, contract: c}
		for _, mod := range c.Modifies {
			fr.havocTarget(pctx, mod)
		}
		post := &EvalCtx{fr: fr, st: fr.st, old: pre, vars: vars, pkgPath: m.PkgPath, contract: c}
		sl := r.stateLoc(post, m)
		post.vars[m.StateVar] = EV{Loc: sl, Ty: types.NewPointer(pathType(sl))}
		for _, en := range c.Ensures {
			if clauseIsInternal(c, en.E, 0) {
				continue
			}
			if t, ok := post.tryBool(en.E); ok {
				fr.assume(t)
			}
		}
	} else {
		r.note("action literal %s has no contract of its own: its effect on captured variables is unknown", r.fnShort(lit))
	}
	v := Val{Tuple: []Val{}}
	return &v
}

func (r *FnRun) checkMonitorsAtExit(fr *Frame, retGuard Term) {}

// DisciplineObligations: the protected state is reached only through the via-function (syntactic check over the
// monitor's package): its address is taken only there, in constructors of the enclosing object, and in helpers that
// receive it as a parameter.
func (e *Engine) DisciplineUnit(m *Monitor) *FnRun {
	via := e.FnByName[m.ViaKey]
	r := e.NewRun(via, nil)
	r.lemmaRun = true
	if via == nil {
		r.Unsupported = append(r.Unsupported, "monitor via-function not found: "+m.ViaKey)
		return r
	}
	// the protected root field
	var fieldName string
	var ownerType types.Type
	if sel, ok := m.StateExpr.(ESel); ok {
		fieldName = sel.Sel
		ownerType = via.Params[0].Type().Underlying().(*types.Pointer).Elem()
	}
	var bad []string
	var keys []string
	for k := range e.FnByName {
		keys = append(keys, k)
	}
	sort.Strings(keys)
	for _, k := range keys {
		fn := e.FnByName[k]
		if pkgOf(fn) == nil || !strings.HasPrefix(pkgOf(fn).Path(), ModulePath) || fn == via {
			continue
		}
		for _, b := range fn.Blocks {
			for _, in := range b.Instrs {
				fa, ok := in.(*ssa.FieldAddr)
				if !ok {
					continue
				}
				pt, ok := fa.X.Type().Underlying().(*types.Pointer)
				if !ok || !types.Identical(pt.Elem(), ownerType) {
					continue
				}
				st := types.Unalias(pt.Elem()).Underlying().(*types.Struct)
				if st.Field(fa.Field).Name() != fieldName {
					continue
				}
				// allowed: initialisation of a freshly allocated owner (composite literal in a constructor)
				if al, ok := fa.X.(*ssa.Alloc); ok && al.Heap {
					continue
				}
				bad = append(bad, fmt.Sprintf("%s touches %s.%s outside %s at %s", r.fnShort(fn), typeKey(ownerType), fieldName, m.Via, r.pos(fa.Pos())))
			}
		}
	}
	goal := True
	src := fmt.Sprintf("%s.%s is accessed only inside %s (lock discipline)", typeKey(ownerType), fieldName, m.Via)
	if len(bad) > 0 {
		goal = False
		src += ": " + strings.Join(bad, "; ")
	}
	r.Sc.Declare("top0", SInt)
	r.addOblNamed(shortName(m.Via)+"#discipline:"+m.Name, "discipline", goal, src, nil, via.Pos())
	// counters that hand out fresh values: every access is atomic.AddInt64(&x.f, positive constant)
	for _, ctr := range m.Counters {
		parts := strings.Split(ctr, ".")
		fname := parts[len(parts)-1]
		var bad3 []string
		for _, k := range keys {
			fn := e.FnByName[k]
			if pkgOf(fn) == nil || !strings.HasPrefix(pkgOf(fn).Path(), ModulePath) {
				continue
			}
			for _, b := range fn.Blocks {
				for _, in := range b.Instrs {
					fa, ok := in.(*ssa.FieldAddr)
					if !ok {
						continue
					}
					pt, ok := fa.X.Type().Underlying().(*types.Pointer)
					if !ok || typeKey(pt.Elem()) != shortPkgName(m.PkgPath)+"."+parts[0] {
						continue
					}
					st := types.Unalias(pt.Elem()).Underlying().(*types.Struct)
					if st.Field(fa.Field).Name() != fname {
						continue
					}
					if al, ok := fa.X.(*ssa.Alloc); ok && al.Heap {
						continue // initialisation of a fresh object
					}
					for _, ref := range *fa.Referrers() {
						okUse := false
						if call, isCall := ref.(*ssa.Call); isCall {
							if cal := call.Call.StaticCallee(); cal != nil && cal.String() == "sync/atomic.AddInt64" && len(call.Call.Args) == 2 && call.Call.Args[0] == ssa.Value(fa) {
								if cst, isC := call.Call.Args[1].(*ssa.Const); isC && cst.Value != nil && cst.Int64() > 0 {
									okUse = true
								}
							}
						}
						if _, isDbg := ref.(*ssa.DebugRef); isDbg {
							okUse = true
						}
						if !okUse {
							bad3 = append(bad3, fmt.Sprintf("%s uses %s other than by atomic.AddInt64(&x.%s, positive constant) at %s", r.fnShort(fn), ctr, fname, r.pos(fa.Pos())))
						}
					}
				}
			}
		}
		g := True
		s3 := "counter " + ctr + " is only ever advanced atomically by a positive constant (values drawn from it are pairwise distinct)"
		if len(bad3) > 0 {
			g = False
			s3 += ": " + strings.Join(bad3, "; ")
		}
		r.addOblNamed(shortName(m.Via)+"#freshcounter:"+ctr, "discipline", g, s3, nil, via.Pos())
	}
	// close-only channels
	for _, co := range m.CloseOnly {
		parts := strings.Split(co, ".")
		var bad2 []string
		for _, k := range keys {
			fn := e.FnByName[k]
			if pkgOf(fn) == nil || pkgOf(fn).Path() != m.PkgPath {
				continue
			}
			for _, b := range fn.Blocks {
				for _, in := range b.Instrs {
					var chans []ssa.Value
					switch in := in.(type) {
					case *ssa.Send:
						chans = append(chans, in.Chan)
					case *ssa.Select:
						for _, s := range in.States {
							if s.Dir == types.SendOnly {
								chans = append(chans, s.Chan)
							}
						}
					}
					for _, ch := range chans {
						if strings.HasSuffix(valueSourceName(ch), "."+parts[len(parts)-1]) || valueSourceName(ch) == parts[len(parts)-1] {
							bad2 = append(bad2, fmt.Sprintf("%s sends on %s", r.fnShort(fn), co))
						}
					}
				}
			}
		}
		g := True
		s2 := "channel " + co + " is never sent on (only closed)"
		if len(bad2) > 0 {
			g = False
			s2 += ": " + strings.Join(bad2, "; ")
		}
		r.addOblNamed(shortName(m.Via)+"#closeonly:"+co, "discipline", g, s2, nil, via.Pos())
	}
	return r
}

// havocAllHeap forgets the heap, except what a held monitor protects: while this unit holds the lock no other code
// can change the protected state (lock discipline, non-reentrant mutex).
// markEscaped: the value (a box address, or a closure capturing boxes) becomes reachable by other code.
func (fr *Frame) isOwnBox(ref string) bool {
	for f := fr; f != nil; f = f.parent {
		if _, ok := f.ownBoxes[ref]; ok {
			return true
		}
	}
	return false
}

func (fr *Frame) markEscaped(v Val) {
	if v.T.S == "" {
		return
	}
	if held, ok := fr.R.boxHolds[v.T.S]; ok {
		// the cell becomes reachable by other code: so does everything that was stored in it
		delete(fr.R.boxHolds, v.T.S)
		for _, h := range held {
			fr.markEscaped(h)
		}
	}
	for f := fr; f != nil; f = f.parent {
		if f.ownBoxes == nil {
			continue
		}
		delete(f.ownBoxes, v.T.S)
		if ci, ok := fr.R.closures[v.T.S]; ok {
			for i, b := range ci.bindings {
				if b.T.S == "" {
					continue
				}
				if i < len(ci.fn.FreeVars) && !closureWrites(ci.fn, ci.fn.FreeVars[i]) {
					// the closure only reads the variable: nobody else can change the variable itself - but what the
					// variable holds (a pointer stored in it) is now reachable through the closure
					if held, ok := fr.R.boxHolds[b.T.S]; ok {
						delete(fr.R.boxHolds, b.T.S)
						for _, h := range held {
							fr.markEscaped(h)
						}
					}
					continue
				}
				delete(f.ownBoxes, b.T.S)
			}
		}
	}
}

// keepOwnBoxes remembers the boxed locals whose address never left this frame (or the frames it is inlined in): the
// code being abstracted cannot write them. The returned function restores them after the havoc.
func (fr *Frame) keepOwnBoxes() func() {
	for _, a := range fr.pendingArgs {
		fr.markEscaped(a)
	}
	type kept struct {
		l *Loc
		v Term
	}
	var boxes []kept
	for f := fr; f != nil; f = f.parent {
		for _, a := range f.pendingArgs {
			fr.markEscaped(a)
		}
	}
	for f := fr; f != nil; f = f.parent {
		var keys []string
		for k := range f.ownBoxes {
			keys = append(keys, k)
		}
		sort.Strings(keys)
		for _, k := range keys {
			l := f.ownBoxes[k]
			if fr.st.vol[l.Ref.S] {
				continue
			}
			boxes = append(boxes, kept{l, fr.load(l)})
		}
	}
	type keptMap struct {
		ref          Term
		mt           *types.Map
		dom, val, ln Term
	}
	var maps []keptMap
	for f := fr; f != nil; f = f.parent {
		var keys []string
		for k := range f.ownMaps {
			keys = append(keys, k)
		}
		sort.Strings(keys)
		for _, k := range keys {
			mt := f.ownMaps[k]
			ref := T(k, SInt)
			maps = append(maps, keptMap{ref, mt, fr.define("own.dom", fr.mapDom(ref, mt)), fr.define("own.val", fr.mapVals(ref, mt)), fr.define("own.len", fr.mapLen(ref, mt))})
		}
	}
	return func() {
		for _, k := range boxes {
			fr.store(k.l, k.v)
		}
		for _, m := range maps {
			ks, vs := fr.mapSorts(m.mt)
			h := fr.R.Heap
			dn, vn, ln := mapDomComp(m.mt), mapValComp(m.mt), mapLenComp(m.mt)
			h.Set(fr.st, dn, fr.define("h", Store(h.Get(fr.st, dn, ArraySort(SInt, ArraySort(ks, SBool))), m.ref, m.dom)))
			h.Set(fr.st, vn, fr.define("h", Store(h.Get(fr.st, vn, ArraySort(SInt, ArraySort(ks, vs))), m.ref, m.val)))
			h.Set(fr.st, ln, fr.define("h", Store(h.Get(fr.st, ln, ArraySort(SInt, SInt)), m.ref, m.ln)))
		}
	}
}

// mapStaysLocal: the map made here can only be reached by the code of this function: its value flows only through
// local variables that are themselves only loaded and stored (not captured, not address-taken), and is only indexed,
// updated, ranged over, measured, deleted from or (in a function that is not inlined) returned. Code this function
// calls can then neither read nor write it, so it survives the havoc of a call.
func mapStaysLocal(mk *ssa.MakeMap, mayReturn bool) bool {
	seen := map[ssa.Value]bool{}
	cells := map[*ssa.Alloc]bool{}
	var ok func(v ssa.Value) bool
	var cellOK func(a *ssa.Alloc) bool
	cellOK = func(a *ssa.Alloc) bool {
		if cells[a] {
			return true
		}
		cells[a] = true
		refs := a.Referrers()
		if refs == nil {
			return false
		}
		for _, u := range *refs {
			switch u := u.(type) {
			case *ssa.DebugRef:
			case *ssa.Store:
				if u.Addr != ssa.Value(a) {
					return false // the cell's address is stored somewhere
				}
			case *ssa.UnOp:
				if u.Op != token.MUL || !ok(u) {
					return false
				}
			default:
				return false
			}
		}
		return true
	}
	ok = func(v ssa.Value) bool {
		if seen[v] {
			return true
		}
		seen[v] = true
		refs := v.Referrers()
		if refs == nil {
			return false
		}
		for _, u := range *refs {
			switch u := u.(type) {
			case *ssa.DebugRef:
			case *ssa.MapUpdate:
				if u.Map != v || u.Key == v || u.Value == v {
					return false
				}
			case *ssa.Lookup:
				if u.X != v {
					return false
				}
			case *ssa.Range:
			case *ssa.Call:
				b, isB := u.Call.Value.(*ssa.Builtin)
				if !isB || (b.Name() != "len" && b.Name() != "delete" && b.Name() != "clear") {
					return false
				}
			case *ssa.Store:
				a, isA := u.Addr.(*ssa.Alloc)
				if !isA || u.Val != v || !cellOK(a) {
					return false
				}
			case *ssa.Return:
				if !mayReturn {
					return false
				}
			default:
				return false
			}
		}
		return true
	}
	return ok(mk)
}

func (fr *Frame) havocAllHeap() {
	r := fr.R
	defer fr.keepOwnBoxes()()
	var keep map[string]Term
	if r.monitor != nil && fr.st.held[r.monitor.Name] && !fr.noKeep {
		keep = map[string]Term{}
		for _, comp := range r.protectedComps(fr, r.monitor) {
			if sort, ok := r.Heap.sorts[comp]; ok {
				keep[comp] = r.Heap.Get(fr.st, comp, sort)
			}
		}
		r.Trusted["while "+r.monitor.Name+" is held, code reached through calls (closer.Close, callbacks) does not modify the protected state (it cannot take the non-reentrant lock)"] = true
	}
	if (!fr.noKeep || fr.lockKeep) && len(fr.st.locks) > 0 {
		if keep == nil {
			keep = map[string]Term{}
		}
		for _, comp := range fr.heldLockComps() {
			if sort, ok := r.Heap.sorts[comp]; ok {
				keep[comp] = r.Heap.Get(fr.st, comp, sort)
			}
		}
		r.Trusted["while a monitored mutex is held, library code and contracted callees do not modify the state it protects (they cannot take the non-reentrant lock)"] = true
	}
	r.Heap.HavocAll(fr.st)
	for k, v := range keep {
		fr.st.heap[k] = v
	}
}

// isCloseOnly: the channel value is read from a field declared close-only by a monitor of this package.
func (fr *Frame) isCloseOnly(v ssa.Value) bool {
	// ctx.Done(): a context's done channel is only ever closed (package context)
	if call, ok := v.(*ssa.Call); ok && call.Call.IsInvoke() && call.Call.Method.Name() == "Done" && isContextType(call.Call.Value.Type()) {
		fr.R.Trusted["a context's Done channel is never sent on: a receive succeeds only after it is closed (package context)"] = true
		return true
	}
	name := valueSourceName(v)
	if name == "" {
		return false
	}
	for _, m := range fr.R.Eng.DB.Monitors {
		for _, co := range m.CloseOnly {
			parts := strings.Split(co, ".")
			f := parts[len(parts)-1]
			if name == f || strings.HasSuffix(name, "."+f) {
				fr.R.Trusted["close-only channel "+co+": a receive succeeds only after close (checked: never sent on)"] = true
				return true
			}
		}
	}
	return false
}

func shortPkgName(path string) string {
	if i := strings.LastIndex(path, "/"); i >= 0 {
		return path[i+1:]
	}
	return path
}
