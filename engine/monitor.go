package gov

import (
	"go/token"

	"golang.org/x/tools/go/ssa"
)

// Monitor support (lock invariants). Filled in below; the hooks are called by the executor.

func (r *FnRun) checkMonitorAccess(fr *Frame, l *Loc, pos token.Pos, write bool) {}

func (r *FnRun) monitorCall(fr *Frame, fn *ssa.Function, cc *ssa.CallCommon, args []Val, pos token.Pos) *Val {
	return nil
}

func (r *FnRun) checkMonitorsAtExit(fr *Frame, retGuard Term) {}
