package gov

import (
	"bufio"
	"fmt"
	"os"
	"strconv"
	"strings"
)

type Clause struct {
	Label string
	E     Expr
	Src   string
	File  string
	Line  int
}

type GhostDef struct {
	Name string
	E    Expr
}

type Track struct {
	Callee string // name of a parameter / free variable / function as written
	Alias  string
	When   Expr // optional filter over the call's arguments ($0, $1, ...)
	Inline bool // 'track f as x inline': the call is logged but the callee is still inlined (not kept opaque)
}

// Contract is the specification of one function (or of one library function, when Trusted).
type Contract struct {
	Key      string // fully qualified function name (ssa Function.String())
	Name     string // as written
	PkgPath  string // package the contract file belongs to ("" for stdlib.spec)
	Props    []string
	File     string
	Line     int
	Trusted  bool
	Abstract bool // contract of an interface method: assumed at invoke sites, justified by the contracts of the implementations
	Pure     bool // no heap effect at call sites
	NoPanic  bool
	NoExplicitPanic bool // only panic(...) statements are obligations (not nil dereferences, bounds, ...)
	Inline   bool // use the body, not the contract, at call sites
	Requires []Clause
	Ensures  []Clause
	Modifies []Expr
	ModAll   bool
	HavocExt bool // modifies every heap component not declared in the module
	Ghosts   []GhostDef
	Loops    map[int][]Clause
	LoopMods map[int][]Expr
	Tracks   []Track
	Panics   []Clause // panics when <cond>
	Asserts  []AtAssert
	Snaps    []Track  // snapshot <name> after call <callee>
	Assumes   []Clause // assumed at entry of the unit, never checked at call sites (listed as trusted)
	GhostVars []GhostVar
	OnCalls   []OnCall
	Callees  map[string]*Contract // assumed contracts of dynamic callees (function-typed fields, parameters), by source name
	Params   []string // explicit parameter names (trusted specs for functions without source names)
	Used     bool
	Holds    []HoldsClause // holds <monitor> <owner expr>: the caller holds the lock for the whole call
	RangeInvs []Clause // rangeloop invariant: induction hypothesis for range-over-func loops (over the variables the body assigns)
	HeapFacts string // "on"/"off": force or suppress the quantified typing facts of fresh heap versions (default: by need)
	ConstCaptures []string // captured variables assumed not to change during the call (listed as trusted)
	Shell    bool          // an empty contract made up for a critical-section unit: callee preconditions are assumed, not proved
}

type HoldsClause struct {
	Mon   string
	Owner Expr
}

// GhostVar is a specification-only variable of the unit, updated by OnCall rules.
type GhostVar struct {
	Name string
	Type string
	Init Expr
}

// OnCall: after every call of Callee made by the unit, Var := E (E may use $i arguments, result, and ghost variables).
type OnCall struct {
	Callee string
	Var    string
	E      Expr
}

// AtAssert: a ghost assertion attached to every call of a named callee inside the function.
type AtAssert struct {
	Callee string
	Clause Clause
}

type SpecFun struct {
	Name    string
	Params  []Binder
	Ret     string
	Reads   []string
	Body    Expr // nil for uninterpreted
	PkgPath string
	File    string
	Line    int
	Axioms  []Clause
}

type Monitor struct {
	Name       string // e.g. stateMu
	PkgPath    string
	Via        string // the locked function every access goes through, e.g. (*Connection).updateInFlight
	ViaKey     string
	Props      []string
	StateVar   string // name bound to the protected state inside actions (the parameter of the function literals)
	StateExpr  Expr   // e.g. &c.state  (over the via-function's receiver)
	Protects   []Expr
	CloseOnly  []string // Type.field of channels that are only ever closed (never sent on)
	Counters   []string // Type.field of counters only ever advanced by atomic.AddInt64(&x.f, positive constant)
	Invariants []Clause
	Trans      []Clause
	Assumes    []Clause // assumptions made at entry of every action (listed as trusted)
	Tracks     []Track  // calls of the via-function tracked in every action (montrack)
	// lock-style monitors: "monitor <name> lock <Type>.<mutexField> as <var>": the critical sections are the code
	// between <x>.<mutexField>.Lock() and Unlock(); <var> names the owner object x in invariants and transitions.
	Kind          string // "via" or "lock"
	OwnerType     string
	MuField       string
	TrustSections []string // functions whose critical sections are not verified (listed as trusted)
	DisciplineOnly bool    // only the lock-discipline obligation is generated: Lock/Unlock keep their library meaning in units
	Unpublished   []string // functions allowed to touch protected fields of an object they have not yet published
	File       string
	Line       int
}

type Lemma struct {
	Name    string
	PkgPath string
	Props   []string
	E       Clause
}

type SpecDB struct {
	Contracts  map[string]*Contract
	Funs       map[string]*SpecFun
	GlobalInvs map[string][]Clause // pkg path -> invariants about package-level variables
	Monitors   []*Monitor
	Lemmas     []*Lemma
	Axioms     []Clause // global axioms (trusted), quantified formulas over spec functions
	AxiomPkg   map[int]string
}

func NewSpecDB() *SpecDB {
	return &SpecDB{Contracts: map[string]*Contract{}, Funs: map[string]*SpecFun{}, GlobalInvs: map[string][]Clause{}, AxiomPkg: map[int]string{}}
}

var clauseKeywords = map[string]bool{
	"func": true, "fun": true, "pred": true, "requires": true, "ensures": true, "modifies": true, "pure": true,
	"ghost": true, "loop": true, "nopanic": true, "trusted": true, "panics": true, "track": true, "global-invariant": true,
	"monitor": true, "invariant": true, "transition": true, "lemma": true, "axiom": true, "inline": true, "assert": true,
	"props": true, "params": true, "protects": true, "snapshot": true, "abstract": true, "callee": true, "ghostvar": true, "on": true, "state": true, "closeonly": true, "assume": true, "freshcounter": true,
	"trust-section": true, "montrack": true, "unpublished": true, "holds": true, "constant": true, "heapfacts": true, "rangeloop": true, "discipline-only": true,
}

type rawClause struct {
	kw   string
	rest string
	line int
}

// readClauses extracts the //@ clauses of a file, joining continuation lines.
func readClauses(path string) ([]rawClause, error) {
	f, err := os.Open(path)
	if err != nil {
		return nil, err
	}
	defer f.Close()
	var out []rawClause
	sc := bufio.NewScanner(f)
	sc.Buffer(make([]byte, 1<<20), 1<<20)
	ln := 0
	for sc.Scan() {
		ln++
		line := strings.TrimSpace(sc.Text())
		if !strings.HasPrefix(line, "//@") {
			continue
		}
		body := strings.TrimSpace(line[3:])
		if i := strings.Index(body, " //"); i >= 0 && !strings.Contains(body[:i], "\"") {
			body = strings.TrimSpace(body[:i])
		} else if i := strings.LastIndex(body, " // "); i >= 0 && strings.Count(body[:i], "\"")%2 == 0 {
			body = strings.TrimSpace(body[:i])
		}
		if body == "" {
			continue
		}
		first := body
		rest := ""
		if i := strings.IndexAny(body, " \t"); i >= 0 {
			first, rest = body[:i], strings.TrimSpace(body[i:])
		}
		if clauseKeywords[first] {
			out = append(out, rawClause{first, rest, ln})
		} else if len(out) > 0 {
			out[len(out)-1].rest += " " + body
		} else {
			return nil, fmt.Errorf("%s:%d: clause without keyword: %s", path, ln, body)
		}
	}
	return out, sc.Err()
}

// qualify turns a name written in a contract file of package pkgPath into the ssa function name.
func qualify(name, pkgPath string) string {
	if pkgPath == "" {
		return name
	}
	if strings.HasPrefix(name, "(") {
		// (*T).M or (T).M
		i := strings.Index(name, ")")
		recv := name[1:i]
		ptr := ""
		if strings.HasPrefix(recv, "*") {
			ptr = "*"
			recv = recv[1:]
		}
		if strings.Contains(recv, ".") || strings.Contains(recv, "/") {
			return name
		}
		return "(" + ptr + pkgPath + "." + recv + ")" + name[i+1:]
	}
	if strings.Contains(name, "/") {
		return name
	}
	if i := strings.Index(name, "."); i >= 0 && !strings.Contains(name[:i], "$") {
		// already qualified by package name (stdlib style), e.g. strings.Fields
		return name
	}
	return pkgPath + "." + name
}

func splitLabel(rest string) (label, body string) {
	if strings.HasPrefix(rest, "@") {
		i := strings.IndexAny(rest, " \t")
		if i < 0 {
			return rest[1:], ""
		}
		return rest[1:i], strings.TrimSpace(rest[i:])
	}
	return "", rest
}

// LoadSpecFile parses one contract file into db.
func (db *SpecDB) LoadSpecFile(path, pkgPath string) error {
	cls, err := readClauses(path)
	if err != nil {
		return err
	}
	var cur *Contract
	var curMon *Monitor
	var curFun *SpecFun
	mk := func(rc rawClause, defLabel string) (Clause, error) {
		label, body := splitLabel(rc.rest)
		if label == "" {
			label = defLabel
		}
		e, err := ParseExpr(body)
		if err != nil {
			return Clause{}, fmt.Errorf("%s:%d: %v", path, rc.line, err)
		}
		return Clause{Label: label, E: e, Src: body, File: path, Line: rc.line}, nil
	}
	for _, rc := range cls {
		switch rc.kw {
		case "func":
			name := rc.rest
			var props []string
			if i := strings.Index(name, "["); i >= 0 && strings.HasSuffix(name, "]") && !strings.HasPrefix(strings.TrimSpace(name[i:]), "[[]") {
				// trailing [C01,C02] property tags; generic instance brackets never end the line with a space before
				if j := strings.LastIndex(name, " ["); j >= 0 {
					for _, p := range strings.Split(name[j+2:len(name)-1], ",") {
						props = append(props, strings.TrimSpace(p))
					}
					name = strings.TrimSpace(name[:j])
				}
			}
			key := qualify(name, pkgPath)
			if _, dup := db.Contracts[key]; dup {
				return fmt.Errorf("%s:%d: duplicate contract for %s", path, rc.line, key)
			}
			cur = &Contract{Key: key, Name: name, PkgPath: pkgPath, Props: props, File: path, Line: rc.line, Loops: map[int][]Clause{}, LoopMods: map[int][]Expr{}}
			db.Contracts[key] = cur
			curMon, curFun = nil, nil
		case "fun", "pred":
			sf, err := parseSpecFun(rc.kw, rc.rest)
			if err != nil {
				return fmt.Errorf("%s:%d: %v", path, rc.line, err)
			}
			sf.PkgPath, sf.File, sf.Line = pkgPath, path, rc.line
			if _, dup := db.Funs[sf.Name]; dup {
				return fmt.Errorf("%s:%d: duplicate spec function %s", path, rc.line, sf.Name)
			}
			db.Funs[sf.Name] = sf
			cur, curMon, curFun = nil, nil, sf
		case "axiom":
			c, err := mk(rc, fmt.Sprint(len(db.Axioms)+1))
			if err != nil {
				return err
			}
			db.AxiomPkg[len(db.Axioms)] = pkgPath
			db.Axioms = append(db.Axioms, c)
			_ = curFun
		case "global-invariant":
			c, err := mk(rc, fmt.Sprint(len(db.GlobalInvs[pkgPath])+1))
			if err != nil {
				return err
			}
			db.GlobalInvs[pkgPath] = append(db.GlobalInvs[pkgPath], c)
		case "lemma":
			i := strings.Index(rc.rest, ":")
			if i < 0 {
				return fmt.Errorf("%s:%d: lemma needs 'name: expr'", path, rc.line)
			}
			head := strings.TrimSpace(rc.rest[:i])
			var props []string
			if j := strings.Index(head, "["); j >= 0 {
				for _, p := range strings.Split(strings.Trim(head[j:], "[]"), ",") {
					props = append(props, strings.TrimSpace(p))
				}
				head = strings.TrimSpace(head[:j])
			}
			e, err := ParseExpr(rc.rest[i+1:])
			if err != nil {
				return fmt.Errorf("%s:%d: %v", path, rc.line, err)
			}
			db.Lemmas = append(db.Lemmas, &Lemma{Name: head, PkgPath: pkgPath, Props: props, E: Clause{Label: head, E: e, Src: rc.rest[i+1:], File: path, Line: rc.line}})
		case "monitor":
			// monitor <name> via <function> [C01,C02]
			rest := rc.rest
			var props []string
			if j := strings.LastIndex(rest, " ["); j >= 0 && strings.HasSuffix(rest, "]") {
				for _, p := range strings.Split(rest[j+2:len(rest)-1], ",") {
					props = append(props, strings.TrimSpace(p))
				}
				rest = strings.TrimSpace(rest[:j])
			}
			fs := strings.Fields(rest)
			m := &Monitor{Name: fs[0], PkgPath: pkgPath, File: path, Line: rc.line, Props: props, Kind: "via"}
			for i := 1; i < len(fs); i++ {
				if fs[i] == "via" && i+1 < len(fs) {
					m.Via = fs[i+1]
					m.ViaKey = qualify(fs[i+1], pkgPath)
					i++
				}
				if fs[i] == "lock" && i+1 < len(fs) {
					// lock <Type>.<field> as <var>
					m.Kind = "lock"
					tf := fs[i+1]
					j := strings.LastIndex(tf, ".")
					if j < 0 {
						return fmt.Errorf("%s:%d: monitor lock needs <Type>.<mutexField>", path, rc.line)
					}
					m.OwnerType, m.MuField = tf[:j], tf[j+1:]
					m.Via = tf
					i++
					if i+2 < len(fs) && fs[i+1] == "as" {
						m.StateVar = fs[i+2]
						i += 2
					}
				}
			}
			if m.Kind == "lock" && m.StateVar == "" {
				return fmt.Errorf("%s:%d: monitor lock needs 'as <var>'", path, rc.line)
			}
			db.Monitors = append(db.Monitors, m)
			curMon, cur = m, nil
		case "state":
			// state s := &c.state
			if curMon == nil {
				return fmt.Errorf("%s:%d: state outside monitor", path, rc.line)
			}
			i := strings.Index(rc.rest, ":=")
			if i < 0 {
				return fmt.Errorf("%s:%d: state needs 'name := expr'", path, rc.line)
			}
			curMon.StateVar = strings.TrimSpace(rc.rest[:i])
			src := strings.TrimSpace(rc.rest[i+2:])
			src = strings.TrimPrefix(src, "&")
			e, err := ParseExpr(src)
			if err != nil {
				return fmt.Errorf("%s:%d: %v", path, rc.line, err)
			}
			curMon.StateExpr = e
		case "discipline-only":
			if curMon == nil {
				return fmt.Errorf("%s:%d: discipline-only outside monitor", path, rc.line)
			}
			curMon.DisciplineOnly = true
		case "trust-section", "unpublished":
			if curMon == nil {
				return fmt.Errorf("%s:%d: %s outside monitor", path, rc.line, rc.kw)
			}
			for _, p := range strings.Split(rc.rest, ",") {
				if rc.kw == "trust-section" {
					curMon.TrustSections = append(curMon.TrustSections, qualify(strings.TrimSpace(p), pkgPath))
				} else {
					curMon.Unpublished = append(curMon.Unpublished, qualify(strings.TrimSpace(p), pkgPath))
				}
			}
		case "montrack":
			// montrack <callee> as <alias>: a tracked call in the via-function's epilogue, usable in transitions
			if curMon == nil {
				return fmt.Errorf("%s:%d: montrack outside monitor", path, rc.line)
			}
			fs := strings.Fields(rc.rest)
			if len(fs) != 3 || fs[1] != "as" {
				return fmt.Errorf("%s:%d: montrack needs '<callee> as <alias>'", path, rc.line)
			}
			curMon.Tracks = append(curMon.Tracks, Track{Callee: fs[0], Alias: fs[2]})
		case "closeonly":
			if curMon == nil {
				return fmt.Errorf("%s:%d: closeonly outside monitor", path, rc.line)
			}
			for _, p := range strings.Split(rc.rest, ",") {
				curMon.CloseOnly = append(curMon.CloseOnly, strings.TrimSpace(p))
			}
		case "freshcounter":
			if curMon == nil {
				return fmt.Errorf("%s:%d: freshcounter outside monitor", path, rc.line)
			}
			for _, p := range strings.Split(rc.rest, ",") {
				curMon.Counters = append(curMon.Counters, strings.TrimSpace(p))
			}
		case "protects":
			if curMon == nil {
				return fmt.Errorf("%s:%d: protects outside monitor", path, rc.line)
			}
			for _, part := range splitTop(rc.rest, ',') {
				e, err := ParseExpr(part)
				if err != nil {
					return fmt.Errorf("%s:%d: %v", path, rc.line, err)
				}
				curMon.Protects = append(curMon.Protects, e)
			}
		case "assume":
			if curMon == nil && cur == nil {
				return fmt.Errorf("%s:%d: assume outside monitor/func", path, rc.line)
			}
			if curMon != nil {
				c, err := mk(rc, fmt.Sprint(len(curMon.Assumes)+1))
				if err != nil {
					return err
				}
				curMon.Assumes = append(curMon.Assumes, c)
			} else {
				c, err := mk(rc, fmt.Sprint(len(cur.Assumes)+1))
				if err != nil {
					return err
				}
				cur.Assumes = append(cur.Assumes, c)
			}
		case "invariant":
			if curMon == nil {
				return fmt.Errorf("%s:%d: invariant outside monitor (use 'loop n: invariant' in functions)", path, rc.line)
			}
			c, err := mk(rc, fmt.Sprint(len(curMon.Invariants)+1))
			if err != nil {
				return err
			}
			curMon.Invariants = append(curMon.Invariants, c)
		case "transition":
			if curMon == nil {
				return fmt.Errorf("%s:%d: transition outside monitor", path, rc.line)
			}
			c, err := mk(rc, fmt.Sprint(len(curMon.Trans)+1))
			if err != nil {
				return err
			}
			curMon.Trans = append(curMon.Trans, c)
		default:
			if cur == nil {
				return fmt.Errorf("%s:%d: clause %q outside a func block", path, rc.line, rc.kw)
			}
			switch rc.kw {
			case "props":
				for _, p := range strings.Split(rc.rest, ",") {
					cur.Props = append(cur.Props, strings.TrimSpace(p))
				}
			case "params":
				for _, p := range strings.Split(rc.rest, ",") {
					cur.Params = append(cur.Params, strings.TrimSpace(p))
				}
			case "requires":
				c, err := mk(rc, fmt.Sprint(len(cur.Requires)+1))
				if err != nil {
					return err
				}
				cur.Requires = append(cur.Requires, c)
			case "ensures":
				c, err := mk(rc, fmt.Sprint(len(cur.Ensures)+1))
				if err != nil {
					return err
				}
				cur.Ensures = append(cur.Ensures, c)
			case "panics":
				rest := strings.TrimSpace(strings.TrimPrefix(rc.rest, "when"))
				c, err := mk(rawClause{rc.kw, rest, rc.line}, fmt.Sprint(len(cur.Panics)+1))
				if err != nil {
					return err
				}
				cur.Panics = append(cur.Panics, c)
			case "modifies":
				if strings.TrimSpace(rc.rest) == "*" {
					cur.ModAll = true
					break
				}
				if strings.TrimSpace(rc.rest) == "extern" {
					cur.HavocExt = true
					break
				}
				for _, part := range splitTop(rc.rest, ',') {
					e, err := ParseExpr(part)
					if err != nil {
						return fmt.Errorf("%s:%d: %v", path, rc.line, err)
					}
					cur.Modifies = append(cur.Modifies, e)
				}
			case "holds":
				fs := strings.SplitN(strings.TrimSpace(rc.rest), " ", 2)
				if len(fs) != 2 {
					return fmt.Errorf("%s:%d: holds needs '<monitor> <owner expression>'", path, rc.line)
				}
				e, err := ParseExpr(fs[1])
				if err != nil {
					return fmt.Errorf("%s:%d: %v", path, rc.line, err)
				}
				cur.Holds = append(cur.Holds, HoldsClause{Mon: fs[0], Owner: e})
			case "pure":
				cur.Pure = true
			case "trusted":
				cur.Trusted = true
			case "abstract":
				cur.Abstract = true
			case "nopanic":
				if strings.TrimSpace(rc.rest) == "explicit" {
					cur.NoExplicitPanic = true
				} else {
					cur.NoPanic = true
				}
			case "inline":
				cur.Inline = true
			case "rangeloop":
				body := strings.TrimSpace(rc.rest)
				if !strings.HasPrefix(body, "invariant") {
					return fmt.Errorf("%s:%d: rangeloop needs 'invariant expr'", path, rc.line)
				}
				c, err := mk(rawClause{"invariant", strings.TrimSpace(body[len("invariant"):]), rc.line}, fmt.Sprint(len(cur.RangeInvs)+1))
				if err != nil {
					return err
				}
				cur.RangeInvs = append(cur.RangeInvs, c)
			case "heapfacts":
				cur.HeapFacts = strings.TrimSpace(rc.rest)
			case "constant":
				for _, p := range strings.Split(rc.rest, ",") {
					cur.ConstCaptures = append(cur.ConstCaptures, strings.TrimSpace(p))
				}
			case "ghost":
				i := strings.Index(rc.rest, ":=")
				if i < 0 {
					return fmt.Errorf("%s:%d: ghost needs name := expr", path, rc.line)
				}
				e, err := ParseExpr(rc.rest[i+2:])
				if err != nil {
					return fmt.Errorf("%s:%d: %v", path, rc.line, err)
				}
				cur.Ghosts = append(cur.Ghosts, GhostDef{strings.TrimSpace(rc.rest[:i]), e})
			case "ghostvar":
				// ghostvar <name> <type> = <expr>
				i := strings.Index(rc.rest, "=")
				if i < 0 {
					return fmt.Errorf("%s:%d: ghostvar needs '<name> <type> = <init>'", path, rc.line)
				}
				fs := strings.Fields(rc.rest[:i])
				if len(fs) < 2 {
					return fmt.Errorf("%s:%d: ghostvar needs '<name> <type> = <init>'", path, rc.line)
				}
				e, err := ParseExpr(rc.rest[i+1:])
				if err != nil {
					return fmt.Errorf("%s:%d: %v", path, rc.line, err)
				}
				cur.GhostVars = append(cur.GhostVars, GhostVar{Name: fs[0], Type: strings.Join(fs[1:], " "), Init: e})
			case "on":
				// on call <callee>: <var> = <expr>
				rest := strings.TrimSpace(rc.rest)
				if !strings.HasPrefix(rest, "call ") {
					return fmt.Errorf("%s:%d: expected 'on call <callee>: var = expr'", path, rc.line)
				}
				rest = rest[5:]
				i := strings.Index(rest, ": ")
				j := i + strings.Index(rest[i+1:], "=") + 1
				if i < 0 || j < i {
					return fmt.Errorf("%s:%d: expected 'on call <callee>: var = expr'", path, rc.line)
				}
				e, err := ParseExpr(rest[j+1:])
				if err != nil {
					return fmt.Errorf("%s:%d: %v", path, rc.line, err)
				}
				cur.OnCalls = append(cur.OnCalls, OnCall{Callee: strings.TrimSpace(rest[:i]), Var: strings.TrimSpace(rest[i+1 : j]), E: e})
			case "callee":
				// callee <name>: pure | ensures <expr> | modifies <targets>
				i := strings.Index(rc.rest, ":")
				if i < 0 {
					return fmt.Errorf("%s:%d: callee needs '<name>: clause'", path, rc.line)
				}
				name := strings.TrimSpace(rc.rest[:i])
				body := strings.TrimSpace(rc.rest[i+1:])
				if cur.Callees == nil {
					cur.Callees = map[string]*Contract{}
				}
				cc := cur.Callees[name]
				if cc == nil {
					cc = &Contract{Key: cur.Key + "/callee:" + name, Name: name, PkgPath: pkgPath, File: path, Line: rc.line, Trusted: true, Loops: map[int][]Clause{}}
					cur.Callees[name] = cc
				}
				switch {
				case body == "pure":
					cc.Pure = true
				case strings.HasPrefix(body, "ensures"):
					c, err := mk(rawClause{"ensures", strings.TrimSpace(body[len("ensures"):]), rc.line}, fmt.Sprint(len(cc.Ensures)+1))
					if err != nil {
						return err
					}
					cc.Ensures = append(cc.Ensures, c)
				case strings.HasPrefix(body, "modifies"):
					rest := strings.TrimSpace(body[len("modifies"):])
					if rest == "extern" {
						cc.HavocExt = true
						break
					}
					if rest == "*" {
						cc.ModAll = true
					} else {
						for _, part := range splitTop(rest, ',') {
							e, err := ParseExpr(part)
							if err != nil {
								return fmt.Errorf("%s:%d: %v", path, rc.line, err)
							}
							cc.Modifies = append(cc.Modifies, e)
						}
					}
				default:
					return fmt.Errorf("%s:%d: unknown callee clause %q", path, rc.line, body)
				}
			case "snapshot":
				// snapshot <name> after call <callee>
				fs := strings.Fields(rc.rest)
				if len(fs) != 4 || fs[1] != "after" || fs[2] != "call" {
					return fmt.Errorf("%s:%d: snapshot needs '<name> after call <callee>'", path, rc.line)
				}
				cur.Snaps = append(cur.Snaps, Track{Callee: fs[3], Alias: fs[0]})
			case "track":
				rest := rc.rest
				var when Expr
				if i := strings.Index(rest, " when "); i >= 0 {
					e, err := ParseExpr(rest[i+6:])
					if err != nil {
						return fmt.Errorf("%s:%d: %v", path, rc.line, err)
					}
					when = e
					rest = rest[:i]
				}
				fs := strings.Fields(rest)
				tr := Track{Callee: fs[0], Alias: fs[0], When: when}
				if len(fs) >= 2 && fs[len(fs)-1] == "inline" {
					tr.Inline = true
					fs = fs[:len(fs)-1]
				}
				if len(fs) == 3 && fs[1] == "as" {
					tr.Alias = fs[2]
				}
				cur.Tracks = append(cur.Tracks, tr)
			case "loop":
				// loop N: invariant expr   |  loop N: modifies a, b
				i := strings.Index(rc.rest, ":")
				if i < 0 {
					return fmt.Errorf("%s:%d: loop needs 'N: invariant expr'", path, rc.line)
				}
				nstr := strings.Fields(rc.rest[:i])[0]
				n, err := strconv.Atoi(nstr)
				if err != nil {
					return fmt.Errorf("%s:%d: bad loop ordinal %q", path, rc.line, nstr)
				}
				body := strings.TrimSpace(rc.rest[i+1:])
				switch {
				case strings.HasPrefix(body, "invariant"):
					c, err := mk(rawClause{"invariant", strings.TrimSpace(body[len("invariant"):]), rc.line}, fmt.Sprint(len(cur.Loops[n])+1))
					if err != nil {
						return err
					}
					cur.Loops[n] = append(cur.Loops[n], c)
				default:
					return fmt.Errorf("%s:%d: unknown loop clause %q", path, rc.line, body)
				}
			case "assert":
				// assert at call <callee>: expr
				rest := strings.TrimSpace(rc.rest)
				if !strings.HasPrefix(rest, "at call ") {
					return fmt.Errorf("%s:%d: assert needs 'at call <callee>: expr'", path, rc.line)
				}
				rest = rest[len("at call "):]
				i := strings.Index(rest, ": ")
				if i < 0 {
					return fmt.Errorf("%s:%d: assert needs ': '", path, rc.line)
				}
				callee := strings.TrimSpace(rest[:i])
				c, err := mk(rawClause{"assert", strings.TrimSpace(rest[i+1:]), rc.line}, fmt.Sprint(len(cur.Asserts)+1))
				if err != nil {
					return err
				}
				cur.Asserts = append(cur.Asserts, AtAssert{Callee: callee, Clause: c})
			default:
				return fmt.Errorf("%s:%d: unexpected clause %q", path, rc.line, rc.kw)
			}
		}
	}
	return nil
}

func splitTop(s string, sep byte) []string {
	var out []string
	depth := 0
	start := 0
	inStr := false
	for i := 0; i < len(s); i++ {
		c := s[i]
		if inStr {
			if c == '\\' {
				i++
			} else if c == '"' {
				inStr = false
			}
			continue
		}
		switch c {
		case '"':
			inStr = true
		case '(', '[', '{':
			depth++
		case ')', ']', '}':
			depth--
		default:
			if c == sep && depth == 0 {
				out = append(out, strings.TrimSpace(s[start:i]))
				start = i + 1
			}
		}
	}
	if strings.TrimSpace(s[start:]) != "" {
		out = append(out, strings.TrimSpace(s[start:]))
	}
	return out
}

// parseSpecFun parses "name(a T, b U) R [reads x, y] [:= body]".
func parseSpecFun(kw, rest string) (*SpecFun, error) {
	i := strings.Index(rest, "(")
	if i < 0 {
		return nil, fmt.Errorf("spec function needs parameter list: %s", rest)
	}
	name := strings.TrimSpace(rest[:i])
	depth := 0
	j := i
	for ; j < len(rest); j++ {
		if rest[j] == '(' {
			depth++
		}
		if rest[j] == ')' {
			depth--
			if depth == 0 {
				break
			}
		}
	}
	if j >= len(rest) {
		return nil, fmt.Errorf("unbalanced parameter list: %s", rest)
	}
	sf := &SpecFun{Name: name}
	for _, p := range splitTop(rest[i+1:j], ',') {
		fs := strings.SplitN(strings.TrimSpace(p), " ", 2)
		if len(fs) != 2 {
			return nil, fmt.Errorf("parameter needs 'name type': %q", p)
		}
		sf.Params = append(sf.Params, Binder{fs[0], strings.TrimSpace(fs[1])})
	}
	tail := strings.TrimSpace(rest[j+1:])
	body := ""
	if k := strings.Index(tail, ":="); k >= 0 {
		body = strings.TrimSpace(tail[k+2:])
		tail = strings.TrimSpace(tail[:k])
	}
	if k := strings.Index(tail, " reads "); k >= 0 {
		for _, r := range strings.Split(tail[k+7:], ",") {
			sf.Reads = append(sf.Reads, strings.TrimSpace(r))
		}
		tail = strings.TrimSpace(tail[:k])
	} else if strings.HasPrefix(tail, "reads ") {
		for _, r := range strings.Split(tail[6:], ",") {
			sf.Reads = append(sf.Reads, strings.TrimSpace(r))
		}
		tail = ""
	}
	sf.Ret = tail
	if kw == "pred" && sf.Ret == "" {
		sf.Ret = "bool"
	}
	if sf.Ret == "" {
		return nil, fmt.Errorf("spec function %s needs a result type", name)
	}
	if body != "" {
		e, err := ParseExpr(body)
		if err != nil {
			return nil, err
		}
		sf.Body = e
	}
	return sf, nil
}
