package gov

import (
	"encoding/json"
	"os/exec"
	"fmt"
	"os"
	"path/filepath"
	"sort"
	"strings"
)

// Mutant is a deliberate change of one repository file, applied in memory (packages overlay).
type Mutant struct {
	ID      string `json:"id"`
	Prop    string `json:"prop"`
	File    string `json:"file"` // relative to the repository
	Find    string `json:"find"`
	Replace string `json:"replace"`
	Expect  string `json:"expect"` // "fail" (must be detected) or "pass" (semantics-preserving: must stay green)
	Obl     string `json:"obligation,omitempty"` // substring of an obligation expected to fail
	Note    string `json:"note,omitempty"`
	Patch   string `json:"patch,omitempty"` // alternative to file/find/replace: a unified diff (path relative to /verif) applied to copies of the files it touches
}

// patchOverlay applies a unified diff to copies of the files it names and returns the changed contents.
func patchOverlay(repo, patchFile string) (map[string][]byte, error) {
	b, err := os.ReadFile(patchFile)
	if err != nil {
		return nil, err
	}
	var files []string
	for _, l := range strings.Split(string(b), "\n") {
		if strings.HasPrefix(l, "+++ b/") {
			f := strings.TrimPrefix(l, "+++ b/")
			if i := strings.IndexAny(f, "\t"); i >= 0 {
				f = f[:i] // "diff -u" appends a timestamp
			}
			files = append(files, strings.TrimSpace(f))
		}
	}
	tmp, err := os.MkdirTemp("", "govpatch")
	if err != nil {
		return nil, err
	}
	defer os.RemoveAll(tmp)
	for _, f := range files {
		src, err := os.ReadFile(filepath.Join(repo, f))
		if err != nil {
			return nil, err
		}
		os.MkdirAll(filepath.Dir(filepath.Join(tmp, f)), 0o755)
		os.WriteFile(filepath.Join(tmp, f), src, 0o644)
	}
	cmd := exec.Command("patch", "-p1", "-s", "-d", tmp, "-i", patchFile)
	if out, err := cmd.CombinedOutput(); err != nil {
		return nil, fmt.Errorf("patch does not apply (mutant is stale): %s", strings.TrimSpace(string(out)))
	}
	ov := map[string][]byte{}
	for _, f := range files {
		nb, err := os.ReadFile(filepath.Join(tmp, f))
		if err != nil {
			return nil, err
		}
		ov[filepath.Join(repo, f)] = nb
	}
	return ov, nil
}

func LoadMutants(dir string) ([]Mutant, error) {
	files, _ := filepath.Glob(filepath.Join(dir, "*.json"))
	sort.Strings(files)
	var out []Mutant
	for _, f := range files {
		b, err := os.ReadFile(f)
		if err != nil {
			return nil, err
		}
		var ms []Mutant
		if err := json.Unmarshal(b, &ms); err != nil {
			return nil, fmt.Errorf("%s: %v", f, err)
		}
		out = append(out, ms...)
	}
	return out, nil
}

type MutantResult struct {
	Mutant   Mutant
	OK       bool
	Detail   string
	Failed   []string
	Wall     float64
}

// RunMutant checks one mutant: the property check must report a violation (expect fail) or stay green (expect pass).
// CarefulPass: must-stay-green mutants are checked with the normal limits (not the fast ones), so that solver load
// cannot turn them into false "not as expected" reports.
var CarefulPass = false

func RunMutant(m Mutant, repo, verif string) MutantResult {
	res := MutantResult{Mutant: m}
	var overlay map[string][]byte
	if m.Patch != "" {
		ov, err := patchOverlay(repo, filepath.Join(verif, m.Patch))
		if err != nil {
			res.Detail = err.Error()
			return res
		}
		overlay = ov
	} else {
		path := filepath.Join(repo, m.File)
		src, err := os.ReadFile(path)
		if err != nil {
			res.Detail = err.Error()
			return res
		}
		if strings.Count(string(src), m.Find) != 1 {
			res.Detail = fmt.Sprintf("pattern occurs %d times in %s (mutant is stale)", strings.Count(string(src), m.Find), m.File)
			return res
		}
		overlay = map[string][]byte{path: []byte(strings.Replace(string(src), m.Find, m.Replace, 1))}
	}
	rep, err := RunCheck(CheckOpts{Prop: m.Prop, Tier: "quick", RepoDir: repo, VerifDir: verif, Overlay: overlay,
		NoEvid: true, Fast: !(CarefulPass && m.Expect == "pass"), OutDir: filepath.Join(verif, "out", "selftest", m.ID)})
	if err == nil && m.Expect == "pass" && len(rep.Violations) > 0 {
		// a must-stay-green edit that is reported under the fast limits (short timeouts, no retry - many mutants run
		// side by side) is decided again with the limits of the real check before it counts as a false alarm
		rep, err = RunCheck(CheckOpts{Prop: m.Prop, Tier: "quick", RepoDir: repo, VerifDir: verif, Overlay: overlay,
			NoEvid: true, Fast: false, OutDir: filepath.Join(verif, "out", "selftest", m.ID)})
	}
	if err != nil {
		res.Detail = "check error: " + err.Error()
		return res
	}
	res.Wall = rep.Wall
	if m.Expect == "fail" || m.Expect == "missed" {
		// An obligation that merely ran out of the short limits of a mutant run (many mutants side by side) is decided
		// again with the limits of the real check: a mutant counts as detected only by obligations that still fail then.
		still := map[string]bool{}
		confirmed := false
		for _, r := range rep.Results {
			if r.Status == "failed" {
				confirmed = true // refuted with a counter-model: nothing to re-decide
			}
		}
		for _, r := range rep.Results {
			if confirmed {
				break
			}
			if r.Status != "undecided" || r.File == "" {
				continue
			}
			st, _, _, _, _ := dischargeWith(retrySolvers, r.File, 12, true)
			if st == "unsat" {
				still[r.Obl.Name] = true
			} else {
				confirmed = true // one obligation that stays undischarged is enough
			}
		}
		if len(still) > 0 {
			var keep []Violation
			for _, v := range rep.Violations {
				if !still[v.Obligation] {
					keep = append(keep, v)
				}
			}
			rep.Violations = keep
		}
	}
	kf := LoadKnownFindings(filepath.Join(verif, "known-findings.jsonl"))
	var viol []Violation
	for _, v := range rep.Violations {
		if kf.Match(m.Prop, v.Obligation) != nil {
			continue
		}
		viol = append(viol, v)
		res.Failed = append(res.Failed, v.Obligation)
	}
	rep.Violations = viol
	switch m.Expect {
	case "fail":
		if len(rep.Violations) == 0 {
			res.Detail = "NOT DETECTED"
			return res
		}
		if m.Obl != "" {
			found := false
			for _, f := range res.Failed {
				if strings.Contains(f, m.Obl) {
					found = true
				}
			}
			if !found {
				res.Detail = "detected, but not by the expected obligation " + m.Obl
				return res
			}
		}
		res.OK = true
	case "missed":
		// a documented miss: a property-breaking change the check is known not to report (kept in the corpus so that
		// the day a strengthened contract reports it, the record is updated)
		if len(rep.Violations) > 0 {
			res.Detail = "documented as missed, but now DETECTED: update the record"
			return res
		}
		res.OK = true
	case "pass":
		if len(rep.Violations) > 0 || len(rep.Broken) > 0 {
			res.Detail = "FALSE ALARM"
			return res
		}
		res.OK = true
	default:
		res.Detail = "bad expect field"
	}
	return res
}
