package gov

import (
	"fmt"
	"go/token"
	"go/types"
	"strings"

	"golang.org/x/tools/go/ssa"
)

type loopInfo struct {
	frameComps []string
	ord      int
	clauses  []Clause
	riAlloc  *ssa.Alloc // rangeindex register, if a range-over-slice loop
	riLen    ssa.Value
	rng      *ssa.Range
	rinfo    *rangeInfo
	strPos   string // ghost key of the byte position of a range-over-string loop ($pos in invariants)
	entryOld *State // state at loop entry (for old-at-entry in invariants: 'old' still means function entry)
}

// rangeIndexOf recognises the header of a range-over-slice/array/int loop.
func rangeIndexOf(b *ssa.BasicBlock) (*ssa.Alloc, ssa.Value) {
	if b.Comment != "rangeindex.loop" {
		return nil, nil
	}
	var al *ssa.Alloc
	var ln ssa.Value
	for _, in := range b.Instrs {
		switch in := in.(type) {
		case *ssa.UnOp:
			if a, ok := in.X.(*ssa.Alloc); ok && in.Op == token.MUL && a.Comment == "rangeindex" {
				al = a
			}
		case *ssa.BinOp:
			if in.Op == token.LSS {
				ln = in.Y
			}
		}
	}
	return al, ln
}

func rangeIterOf(b *ssa.BasicBlock) *ssa.Range {
	for _, in := range b.Instrs {
		if nx, ok := in.(*ssa.Next); ok {
			if r, ok := nx.Iter.(*ssa.Range); ok && !nx.IsString {
				return r
			}
		}
	}
	return nil
}

// rangeStringOf recognises the header of a range-over-string loop.
func rangeStringOf(b *ssa.BasicBlock) *ssa.Range {
	for _, in := range b.Instrs {
		if nx, ok := in.(*ssa.Next); ok && nx.IsString {
			if r, ok := nx.Iter.(*ssa.Range); ok {
				return r
			}
		}
	}
	return nil
}

func (fr *Frame) loopVars(li *loopInfo, st *State) map[string]EV {
	vars := map[string]EV{}
	if li.strPos != "" {
		if v, ok := st.ghost[li.strPos]; ok {
			vars["$pos"] = EV{T: v, Ty: types.Typ[types.Int]}
		}
	}
	if li.riAlloc != nil {
		if t, ok := st.regs[li.riAlloc]; ok {
			vars["$idx"] = EV{T: Add(t, IntLit(1)), Ty: types.Typ[types.Int]}
		}
	}
	if li.rinfo != nil {
		if v, ok := st.ghost[li.rinfo.visKey]; ok {
			vars["$visited"] = EV{T: v}
		}
	}
	return vars
}

func (fr *Frame) loopCut(b *ssa.BasicBlock, ord int, ci *cfgInfo) {
	r := fr.R
	li := &loopInfo{ord: ord}
	if fr.loops == nil {
		fr.loops = map[*ssa.BasicBlock]*loopInfo{}
	}
	fr.loops[b] = li
	if fr.C != nil && fr.top {
		li.clauses = fr.C.Loops[ord]
		if len(li.clauses) > 0 {
			fr.loopsUsed[ord] = true
		}
	} else if r.action != nil && fr.Fn == r.action && r.Contract != nil {
		li.clauses = r.Contract.Loops[ord]
		fr.C = r.Contract
	}
	li.riAlloc, li.riLen = rangeIndexOf(b)
	if rng := rangeIterOf(b); rng != nil {
		li.rng = rng
		mt := types.Unalias(rng.X.Type()).Underlying().(*types.Map)
		ks := r.TM.SortOf(mt.Key())
		li.rinfo = &rangeInfo{visKey: fmt.Sprintf("visited.%s.%d", fr.Fn.Name(), ord), keyKey: fmt.Sprintf("key.%s.%d", fr.Fn.Name(), ord), mt: mt}
		if fr.rangeInfo == nil {
			fr.rangeInfo = map[*ssa.Range]*rangeInfo{}
		}
		fr.rangeInfo[rng] = li.rinfo
		fr.st.ghost[li.rinfo.visKey] = T(fmt.Sprintf("((as const %s) false)", ArraySort(ks, SBool)), ArraySort(ks, SBool))
	}
	var strX Term
	if rng := rangeStringOf(b); rng != nil {
		// range over a string: the loop visits the byte positions 0, w0, w0+w1, ... ($pos is the next one)
		li.strPos = fmt.Sprintf("strpos.%s.%d", fr.Fn.Name(), ord)
		if fr.strPos == nil {
			fr.strPos = map[*ssa.Range]string{}
		}
		fr.strPos[rng] = li.strPos
		fr.st.ghost[li.strPos] = IntLit(0)
		strX = fr.termOf(fr.val(rng.X))
	}
	// invariant on entry
	fr.checkInvariants(li, "inv-entry", b)
	// havoc what the loop body may change
	eff := fr.blockEffects(ci.body[b], 0)
	if eff.alloc || eff.all {
		fr.bumpTop()
	}
	if eff.all && fr.ownBoxes != nil {
		for _, lb := range ci.body[b] {
			for _, in := range lb.Instrs {
				if call, ok := in.(ssa.CallInstruction); ok {
					for _, a := range call.Common().Args {
						// the argument may be formed inside the loop from something that exists already (&w boxed
						// into an interface, a field address, a slice of it, ...): what it is formed from escapes
						for _, root := range valueRoots(a, 0) {
							if v, ok := fr.env[root]; ok {
								fr.markEscaped(v)
							}
						}
					}
					if v, ok := fr.env[call.Common().Value]; ok {
						fr.markEscaped(v)
					}
				}
			}
		}
	}
	if eff.all {
		fr.havocAllHeap()
	} else {
		for _, n := range sortedBoolKeys(eff.comps) {
			r.Heap.Havoc(fr.st, n)
		}
		// the function's frame is an implicit loop invariant: outside the modifies clause the havocked components
		// still hold their entry values (assumed here, proved at every back edge)
		if fr.top && fr.C != nil && !fr.C.ModAll && !r.inInit && fr.st.epoch == fr.entry.epoch {
			for _, n := range sortedBoolKeys(eff.comps) {
				if _, known := r.Heap.sorts[n]; !known {
					continue
				}
				if f, ok := r.frameFormula(fr, n, fr.st.heap[n]); ok && f.S != "true" {
					fr.assume(f)
					li.frameComps = append(li.frameComps, n)
				}
			}
		}
	}
	fr.assumeGlobalInvs()
	for a := range eff.regs {
		if _, live := fr.st.regs[a]; live {
			fr.st.regs[a] = fr.freshTyped("lp."+a.Comment, a.Type().(*types.Pointer).Elem())
		}
	}
	if c := fr.C; c != nil {
		for _, oc := range c.OnCalls {
			if !eff.called[oc.Callee] {
				continue
			}
			for _, gv := range c.GhostVars {
				if gv.Name != oc.Var {
					continue
				}
				ty, err := r.Eng.ResolveType(gv.Type, c.PkgPath)
				if err != nil {
					r.unsupported("%v", err)
				}
				fr.st.ghost["gv."+gv.Name] = fr.freshTyped("lp.gv."+gv.Name, ty)
			}
		}
	}
	if c := r.Contract; c != nil {
		for _, tr := range c.Tracks {
			if !eff.called[tr.Callee] {
				// call logs record the calls made by this unit's own code: no call site in the loop, no change
				continue
			}
			for k, old := range fr.st.ghost {
				if k == "calls."+tr.Alias || strings.HasPrefix(k, "res."+tr.Alias+".") || strings.HasPrefix(k, "arg."+tr.Alias+".") || strings.HasPrefix(k, "last."+tr.Alias+".") {
					fr.st.ghost[k] = r.Sc.FreshConst("lp.g", old.Sort)
				}
			}
			if _, ok := fr.st.ghost["calls."+tr.Alias]; !ok {
				fr.st.ghost["calls."+tr.Alias] = r.Sc.FreshConst("lp.g", SInt)
			}
			r.Sc.Assume(Le(IntLit(0), fr.st.ghost["calls."+tr.Alias]))
		}
	}
	if li.rinfo != nil {
		fr.st.ghost[li.rinfo.visKey] = r.Sc.FreshConst("lp.visited", fr.st.ghost[li.rinfo.visKey].Sort)
	}
	if li.strPos != "" {
		p := r.Sc.FreshConst("lp.strpos", SInt)
		fr.st.ghost[li.strPos] = p
		fr.assume(And(Le(IntLit(0), p), Le(p, app(SInt, "str.len", strX))))
	}
	if eff.defers {
		r.unsupported("defer inside a loop in %s", fr.Fn)
	}
	// automatic range-index bounds
	if li.riAlloc != nil && li.riLen != nil {
		ri := fr.st.regs[li.riAlloc]
		n := fr.termOf(fr.val(li.riLen))
		fr.assume(And(Le(IntLit(-1), ri), Or(Lt(ri, n), Eq(ri, IntLit(-1)))))
	}
	// assume the invariant
	if len(li.clauses) > 0 {
		ctx := fr.ctxHere().with(fr.loopVars(li, fr.st))
		for _, cl := range li.clauses {
			fr.assume(ctx.Bool(cl.E))
		}
		// vacuity: the invariant together with the path must be satisfiable
		r.addCover(fmt.Sprintf("loop%d-invariant-reachable", ord), fr.cur)
	}
}

// valueRoots lists v and the values it is formed from by conversions, boxing and address arithmetic.
func valueRoots(v ssa.Value, depth int) []ssa.Value {
	out := []ssa.Value{v}
	if depth > 6 {
		return out
	}
	switch x := v.(type) {
	case *ssa.MakeInterface:
		out = append(out, valueRoots(x.X, depth+1)...)
	case *ssa.ChangeInterface:
		out = append(out, valueRoots(x.X, depth+1)...)
	case *ssa.ChangeType:
		out = append(out, valueRoots(x.X, depth+1)...)
	case *ssa.Convert:
		out = append(out, valueRoots(x.X, depth+1)...)
	case *ssa.FieldAddr:
		out = append(out, valueRoots(x.X, depth+1)...)
	case *ssa.IndexAddr:
		out = append(out, valueRoots(x.X, depth+1)...)
	case *ssa.Slice:
		out = append(out, valueRoots(x.X, depth+1)...)
	case *ssa.Phi:
		for _, e := range x.Edges {
			out = append(out, valueRoots(e, depth+1)...)
		}
	}
	return out
}

func (fr *Frame) checkInvariants(li *loopInfo, kind string, at *ssa.BasicBlock) {
	if len(li.clauses) == 0 {
		return
	}
	ctx := fr.ctxHere().with(fr.loopVars(li, fr.st))
	for _, cl := range li.clauses {
		goal := Implies(fr.cur, ctx.Bool(cl.E))
		fr.R.addObl(fmt.Sprintf("loop%d:%s", li.ord, kind), cl.Label, goal, cl.Src, &cl, at.Instrs[0].Pos())
	}
}

func (fr *Frame) loopBackEdge(h *ssa.BasicBlock, ord int, g Term) {
	li := fr.loops[h]
	if li == nil {
		fr.R.unsupported("back edge to a loop header that was not cut (irreducible control flow?) in %s", fr.Fn)
	}
	saved := fr.cur
	fr.cur = g
	fr.checkInvariants(li, "inv-preserve", h)
	for _, n := range li.frameComps {
		cur, ok := fr.st.heap[n]
		if !ok || fr.st.epoch != fr.entry.epoch {
			fr.R.addObl(fmt.Sprintf("loop%d:frame", li.ord), n, False, "loop body reaches code without a contract", nil, h.Instrs[0].Pos())
			continue
		}
		if f, ok := fr.R.frameFormula(fr, n, cur); ok && f.S != "true" {
			fr.R.addObl(fmt.Sprintf("loop%d:frame", li.ord), n, Implies(g, f), "loop body changes only what 'modifies' lists: "+n, nil, h.Instrs[0].Pos())
		}
	}
	fr.cur = saved
}

type effects struct {
	comps    map[string]bool
	regs     map[*ssa.Alloc]bool
	ghost    map[string]bool
	ghostAll bool
	called   map[string]bool
	all      bool
	alloc    bool
	defers   bool
}

// rootComp names the heap component a store through addr writes (syntactic).
func (fr *Frame) storeComps(addr ssa.Value, eff *effects) {
	_ = fr.R.TM
	switch a := addr.(type) {
	case *ssa.Alloc:
		if isRegisterAlloc(a) {
			eff.regs[a] = true
			return
		}
		elem := a.Type().(*types.Pointer).Elem()
		fr.typeComps(elem, eff, true)
	case *ssa.FieldAddr:
		// find the outermost object
		root := a
		for {
			if fa, ok := root.X.(*ssa.FieldAddr); ok {
				root = fa
				continue
			}
			break
		}
		if ia, ok := root.X.(*ssa.IndexAddr); ok {
			fr.storeComps(ia, eff)
			return
		}
		if g, ok := root.X.(*ssa.Global); ok {
			eff.comps[fr.globalComp(g)] = true
			return
		}
		pt := root.X.Type().Underlying().(*types.Pointer).Elem()
		st := types.Unalias(pt).Underlying().(*types.Struct)
		eff.comps[fieldComp(pt, st.Field(root.Field).Name())] = true
		if fr.isOpaqueStruct(pt) {
			eff.comps[boxComp(pt)] = true
		}
	case *ssa.IndexAddr:
		switch u := types.Unalias(a.X.Type()).Underlying().(type) {
		case *types.Slice:
			eff.comps[elemsComp(u.Elem())] = true
		case *types.Pointer:
			at := types.Unalias(u.Elem()).Underlying().(*types.Array)
			eff.comps[elemsComp(at.Elem())] = true
		}
	case *ssa.Global:
		eff.comps[fr.globalComp(a)] = true
	default:
		elem := addr.Type().Underlying().(*types.Pointer).Elem()
		fr.typeComps(elem, eff, true)
	}
}

// typeComps adds the components written by a store of a whole value of type t through a pointer.
func (fr *Frame) typeComps(t types.Type, eff *effects, direct bool) {
	_ = fr.R.TM
	if st, ok := types.Unalias(t).Underlying().(*types.Struct); ok {
		if fr.isOpaqueStruct(t) {
			eff.comps[boxComp(t)] = true
		}
		for i := 0; i < st.NumFields(); i++ {
			eff.comps[fieldComp(t, st.Field(i).Name())] = true
		}
		return
	}
	if at, ok := types.Unalias(t).Underlying().(*types.Array); ok {
		eff.comps[elemsComp(at.Elem())] = true
		return
	}
	eff.comps[boxComp(t)] = true
}

func (fr *Frame) blockEffects(blocks []*ssa.BasicBlock, depth int) *effects {
	eff := &effects{comps: map[string]bool{}, regs: map[*ssa.Alloc]bool{}, ghost: map[string]bool{}, called: map[string]bool{}}
	tm := fr.R.TM
	for _, b := range blocks {
		for _, in := range b.Instrs {
			switch in := in.(type) {
			case *ssa.Store:
				fr.storeComps(in.Addr, eff)
			case *ssa.Alloc:
				if isRegisterAlloc(in) {
					eff.regs[in] = true
				} else {
					eff.alloc = true
					fr.typeComps(in.Type().(*types.Pointer).Elem(), eff, true)
				}
			case *ssa.MapUpdate:
				mt := types.Unalias(in.Map.Type()).Underlying().(*types.Map)
				eff.comps[mapDomComp(mt)] = true
				eff.comps[mapValComp(mt)] = true
				eff.comps[mapLenComp(mt)] = true
			case *ssa.MakeMap:
				mt := types.Unalias(in.Type()).Underlying().(*types.Map)
				eff.comps[mapDomComp(mt)] = true
				eff.comps[mapLenComp(mt)] = true
				eff.alloc = true
			case *ssa.MakeSlice:
				eff.comps[elemsComp(types.Unalias(in.Type()).Underlying().(*types.Slice).Elem())] = true
				eff.alloc = true
			case *ssa.MakeChan:
				eff.comps[chanClosedComp] = true
				eff.alloc = true
			case *ssa.MakeClosure:
				eff.alloc = true
			case *ssa.Convert:
				if tm.SortOf(in.Type()) == SSlice && tm.SortOf(in.X.Type()) == SString {
					eff.alloc = true
					eff.comps[elemsComp(types.Unalias(in.Type()).Underlying().(*types.Slice).Elem())] = true
				}
			case *ssa.Defer:
				eff.defers = true
			case *ssa.Go:
				for _, n := range fr.calleeNames(&in.Call) {
					eff.called[n] = true
					eff.called["go:"+n] = true
				}
			case *ssa.Send:
				eff.called["send:"+valueSourceName(in.Chan)] = true
			case *ssa.Call:
				fr.callEffects(&in.Call, eff, depth)
			}
		}
	}
	return eff
}

func (fr *Frame) callEffects(cc *ssa.CallCommon, eff *effects, depth int) {
	_ = fr.R.TM
	for _, n := range fr.calleeNames(cc) {
		eff.called[n] = true
	}
	if b, ok := cc.Value.(*ssa.Builtin); ok {
		switch b.Name() {
		case "append":
			st := types.Unalias(cc.Args[0].Type()).Underlying().(*types.Slice)
			eff.comps[elemsComp(st.Elem())] = true
			eff.alloc = true
		case "copy":
			st := types.Unalias(cc.Args[0].Type()).Underlying().(*types.Slice)
			eff.comps[elemsComp(st.Elem())] = true
		case "delete", "clear":
			if mt, ok := types.Unalias(cc.Args[0].Type()).Underlying().(*types.Map); ok {
				eff.comps[mapDomComp(mt)] = true
				eff.comps[mapLenComp(mt)] = true
			}
		case "close":
			eff.comps[chanClosedComp] = true
		}
		return
	}
	eff.alloc = true
	if m, _, _ := fr.R.Eng.lockOpOf(cc); m != nil {
		for _, comp := range fr.R.protectedComps(fr, m) {
			eff.comps[comp] = true
		}
		return
	}
	if cc.IsInvoke() {
		key := "(" + types.TypeString(cc.Value.Type(), nil) + ")." + cc.Method.Name()
		c := fr.R.Eng.DB.Contracts[key]
		if c == nil {
			if rs := cc.Method.Type().(*types.Signature).Recv(); rs != nil {
				c = fr.R.Eng.DB.Contracts["("+types.TypeString(rs.Type(), nil)+")."+cc.Method.Name()]
			}
		}
		if c != nil && !c.ModAll && !c.HavocExt && len(c.Modifies) == 0 {
			return
		}
		eff.all = true
		return
	}
	fn := cc.StaticCallee()
	if fn == nil {
		if c := fr.C; c != nil && c.Callees != nil {
			for _, n := range fr.calleeNames(cc) {
				if cs, ok := c.Callees[n]; ok && !cs.ModAll && len(cs.Modifies) == 0 {
					return
				}
			}
		}
		eff.all = true
		return
	}
	if c := fr.R.Eng.ContractFor(fn); c != nil && !c.Inline {
		if !c.ModAll && !c.HavocExt && len(c.Modifies) == 0 && len(fn.FreeVars) == 0 {
			return
		}
		if !c.ModAll && !c.HavocExt && len(fn.FreeVars) == 0 {
			if comps, ok := fr.contractEffectComps(c, fn, cc); ok {
				for _, k := range comps {
					eff.comps[k] = true
				}
				return
			}
		}
		eff.all = true
		return
	}
	o := fr.fnOrigin(fn)
	if o.Pkg != nil && !fr.R.Eng.InModule(o.Pkg.Pkg) {
		if purePkgs[o.Pkg.Pkg.Path()] || pureFuncs[o.String()] {
			return
		}
		eff.all = true
		return
	}
	if depth < 4 && len(fn.Blocks) > 0 && len(fn.Blocks) <= 60 && len(fn.FreeVars) == 0 && fn.TypeParams().Len() == 0 && (fn.Origin() == nil || fn.Origin() == fn) {
		sub := fr.blockEffects(fn.Blocks, depth+1)
		if sub.all {
			eff.all = true
		}
		for k := range sub.comps {
			eff.comps[k] = true
		}
		for k := range sub.called {
			eff.called[k] = true
		}
		if sub.alloc {
			eff.alloc = true
		}
		return
	}
	eff.all = true
}

// contractEffectComps over-approximates a contract's modifies clause by whole heap components, typing the targets
// statically from the callee's parameter types.
func (fr *Frame) contractEffectComps(c *Contract, fn *ssa.Function, cc *ssa.CallCommon) (comps []string, ok bool) {
	vars := map[string]types.Type{}
	ps := fn.Params
	if o := fn.Origin(); o != nil && o != fn && len(o.Params) == len(fn.Params) {
		ps = o.Params
	}
	for i, p := range ps {
		ty := fn.Params[i].Type()
		if cc != nil && i < len(cc.Args) {
			// an interface-typed parameter: use the static type of the value boxed at this call site
			if mi, isMI := cc.Args[i].(*ssa.MakeInterface); isMI {
				ty = mi.X.Type()
			}
		}
		vars[p.Name()] = ty
		vars[fmt.Sprintf("$%d", i)] = ty
	}
	for _, m := range c.Modifies {
		cs, ok := fr.targetComps(m, vars, c.PkgPath)
		if !ok {
			return nil, false
		}
		comps = append(comps, cs...)
	}
	return comps, true
}

func (fr *Frame) staticType(e Expr, vars map[string]types.Type) types.Type {
	switch e := e.(type) {
	case EIdent:
		return vars[e.Name]
	case ESel:
		xt := fr.staticType(e.X, vars)
		if xt == nil {
			return nil
		}
		obj, _, _ := types.LookupFieldOrMethod(xt, true, nil, e.Sel)
		if obj == nil {
			if n := namedOf(xt); n != nil {
				obj, _, _ = types.LookupFieldOrMethod(xt, true, n.Obj().Pkg(), e.Sel)
			}
		}
		if v, ok := obj.(*types.Var); ok {
			return v.Type()
		}
	case EIndex:
		xt := fr.staticType(e.X, vars)
		if xt == nil {
			return nil
		}
		switch u := types.Unalias(xt).Underlying().(type) {
		case *types.Map:
			return u.Elem()
		case *types.Slice:
			return u.Elem()
		}
	}
	return nil
}

func (fr *Frame) targetComps(e Expr, vars map[string]types.Type, pkgPath string) ([]string, bool) {
	if id, ok := e.(EIdent); ok && id.Name == "chanState" {
		fr.R.Heap.register(chanClosedComp, ArraySort(SInt, SBool))
		return []string{chanClosedComp}, true
	}
	switch e := e.(type) {
	case ESel:
		xt := fr.staticType(e.X, vars)
		if xt == nil {
			return nil, false
		}
		p, ok := types.Unalias(xt).Underlying().(*types.Pointer)
		if !ok {
			return nil, false
		}
		_, path, _ := types.LookupFieldOrMethod(xt, true, nil, e.Sel)
		if path == nil {
			if n := namedOf(xt); n != nil {
				_, path, _ = types.LookupFieldOrMethod(xt, true, n.Obj().Pkg(), e.Sel)
			}
		}
		if path == nil {
			return nil, false
		}
		st := types.Unalias(p.Elem()).Underlying().(*types.Struct)
		return []string{fieldComp(p.Elem(), st.Field(path[0]).Name())}, true
	case ECall:
		switch e.Fun {
		case "elems":
			xt := fr.staticType(e.Args[0], vars)
			if st, ok := types.Unalias(xt).Underlying().(*types.Slice); xt != nil && ok {
				return []string{elemsComp(st.Elem())}, true
			}
		case "mapOf":
			xt := fr.staticType(e.Args[0], vars)
			if xt != nil {
				if mt, ok := types.Unalias(xt).Underlying().(*types.Map); ok {
					return []string{mapDomComp(mt), mapValComp(mt), mapLenComp(mt)}, true
				}
			}
		case "all":
			xt := fr.staticType(e.Args[0], vars)
			if xt != nil {
				if p, ok := types.Unalias(xt).Underlying().(*types.Pointer); ok {
					if st, ok := types.Unalias(p.Elem()).Underlying().(*types.Struct); ok {
						var out []string
						for i := 0; i < st.NumFields(); i++ {
							out = append(out, fieldComp(p.Elem(), st.Field(i).Name()))
						}
						return out, true
					}
				}
			}
		case "fields":
			parts := strings.Split(typeExprString(e.Args[0]), ".")
			ty, err := fr.R.Eng.ResolveType(strings.Join(parts[:len(parts)-1], "."), pkgPath)
			if err == nil {
				if st, ok := types.Unalias(ty).Underlying().(*types.Struct); ok {
					for i := 0; i < st.NumFields(); i++ {
						if st.Field(i).Name() == parts[len(parts)-1] {
							name := fieldComp(ty, st.Field(i).Name())
							fr.R.Heap.NoteType(name, st.Field(i).Type())
							fr.R.Heap.register(name, ArraySort(SInt, fr.R.TM.SortOf(st.Field(i).Type())))
						}
					}
				}
				return []string{fieldComp(ty, parts[len(parts)-1])}, true
			}
		case "allElems":
			ty, err := fr.R.Eng.ResolveType(typeExprString(e.Args[0]), pkgPath)
			if err == nil {
				fr.R.Heap.NoteType(elemsComp(ty), ty)
				fr.R.Heap.register(elemsComp(ty), ArraySort(SInt, ArraySort(SInt, fr.R.TM.SortOf(ty))))
				return []string{elemsComp(ty)}, true
			}
		case "maps":
			ty, err := fr.R.Eng.ResolveType(typeExprString(e.Args[0]), pkgPath)
			if err == nil {
				if mt, ok := types.Unalias(ty).Underlying().(*types.Map); ok {
					ks, vs := fr.mapSorts(mt)
					fr.R.Heap.NoteType(mapValComp(mt), mt.Elem())
					fr.R.Heap.register(mapDomComp(mt), ArraySort(SInt, ArraySort(ks, SBool)))
					fr.R.Heap.register(mapValComp(mt), ArraySort(SInt, ArraySort(ks, vs)))
					fr.R.Heap.register(mapLenComp(mt), ArraySort(SInt, SInt))
					return []string{mapDomComp(mt), mapValComp(mt), mapLenComp(mt)}, true
				}
			}
		case "chanState":
			fr.R.Heap.register(chanClosedComp, ArraySort(SInt, SBool))
			return []string{chanClosedComp}, true
		case "ghostOf", "ghosts":
			fr.R.Heap.register(ghostComp(e.Args[0]), ArraySort(SInt, SBool))
			return []string{ghostComp(e.Args[0])}, true
		case "reach":
			xt := fr.staticType(e.Args[0], vars)
			if xt != nil {
				if _, isIface := types.Unalias(xt).Underlying().(*types.Interface); !isIface {
					return fr.reachComps(xt), true
				}
			}
		}
	}
	return nil, false
}
