package gov

import (
	"bufio"
	"encoding/json"
	"os"
	"strings"
)

// KnownFinding is one line of /verif/known-findings.jsonl.
type KnownFinding struct {
	Status     string `json:"status"` // "known" or "fixed"
	Property   string `json:"property"`
	Obligation string `json:"obligation"` // exact obligation name
	What       string `json:"what"`
	Commit     string `json:"commit,omitempty"`
}

type KnownFindings struct{ list []KnownFinding }

func LoadKnownFindings(path string) *KnownFindings {
	kf := &KnownFindings{}
	f, err := os.Open(path)
	if err != nil {
		return kf
	}
	defer f.Close()
	sc := bufio.NewScanner(f)
	sc.Buffer(make([]byte, 1<<20), 1<<20)
	for sc.Scan() {
		line := strings.TrimSpace(sc.Text())
		if line == "" || strings.HasPrefix(line, "#") {
			continue
		}
		var k KnownFinding
		if json.Unmarshal([]byte(line), &k) == nil {
			kf.list = append(kf.list, k)
		}
	}
	return kf
}

// Match returns the known (not fixed) finding recorded for exactly this obligation.
func (kf *KnownFindings) Match(prop, obligation string) *KnownFinding {
	for i := range kf.list {
		k := &kf.list[i]
		if k.Status == "known" && k.Property == prop && k.Obligation == obligation {
			return k
		}
	}
	return nil
}
