package gov

import (
	"bytes"
	"context"
	"encoding/json"
	"fmt"
	"os"
	"os/exec"
	"path/filepath"
	"regexp"
	"strconv"
	"strings"
	"text/template"
	"time"
)

// ReplaySpec connects failed obligations to a driver that re-runs the counterexample on the real code.
// The driver is an in-package Go test (text/template) injected with `go test -overlay`; it must FAIL exactly
// when the real code violates the clause for the model's input.
type ReplaySpec struct {
	Obligation string            `json:"obligation"` // regexp on the obligation name
	Template   string            `json:"template"`   // file under /verif/replay
	PkgDir     string            `json:"pkg_dir"`    // package directory relative to the repository
	Values     map[string]string `json:"values"`     // NAME -> SMT expression evaluated in the counter-model
	Run        string            `json:"run"`        // test name
	Candidate  bool              `json:"candidate"`  // also run when the obligation is undecided: input values come from a candidate model (script without quantified assumptions)
	Static     bool              `json:"static"`     // the driver is a fixed scenario (no model values): run it whenever the obligation is not discharged
}

func LoadReplaySpecs(dir string) []ReplaySpec {
	b, err := os.ReadFile(filepath.Join(dir, "replay.json"))
	if err != nil {
		return nil
	}
	var out []ReplaySpec
	if json.Unmarshal(b, &out) != nil {
		return nil
	}
	return out
}

type ReplayOutcome struct {
	Reproduced bool
	Values     map[string]any
	TestFile   string
	Output     string
	Note       string
}

// modelValues re-runs the refuted query asking for the values of the given expressions.
func modelValues(smtFile string, exprs []string) (map[string]string, error) {
	src, err := os.ReadFile(smtFile)
	if err != nil {
		return nil, err
	}
	text := strings.Replace(string(src), "(get-model)\n", "", 1)
	var kept []string
	for _, l := range strings.Split(text, "\n") {
		if strings.HasPrefix(l, "(get-value") {
			continue
		}
		kept = append(kept, l)
	}
	// first the script as it is; if the solvers only answer "unknown" (quantified facts), a candidate model of the
	// script without its quantified assumptions: it may violate a dropped fact, which is why it is only used as
	// an input to try on the real code, never as evidence by itself
	relaxed := make([]string, 0, len(kept))
	goalSeen := false
	for i := len(kept) - 1; i >= 0; i-- {
		l := kept[i]
		if !goalSeen && strings.HasPrefix(l, "(assert (not ") {
			goalSeen = true
			relaxed = append(relaxed, l)
			continue
		}
		if strings.HasPrefix(l, "(assert") && strings.Contains(l, "(forall") {
			continue
		}
		relaxed = append(relaxed, l)
	}
	for i, j := 0, len(relaxed)-1; i < j; i, j = i+1, j-1 {
		relaxed[i], relaxed[j] = relaxed[j], relaxed[i]
	}
	for _, variant := range [][]string{kept, relaxed} {
		text = strings.Join(variant, "\n")
		text += "\n(get-value (" + strings.Join(exprs, " ") + "))\n"
		tmp := smtFile + ".values.smt2"
		if err := os.WriteFile(tmp, []byte(text), 0o644); err != nil {
			return nil, err
		}
		for _, solver := range [][]string{{"z3-new", "-T:30", tmp}, {"z3", "-T:30", tmp}} {
			ctx, cancel := context.WithTimeout(context.Background(), 40*time.Second)
			out, _ := exec.CommandContext(ctx, solver[0], solver[1:]...).CombinedOutput()
			cancel()
			s := strings.TrimSpace(string(out))
			if !strings.HasPrefix(s, "sat") {
				continue
			}
			body := strings.TrimSpace(strings.TrimPrefix(s, "sat"))
			vals, err := parseGetValue(body, exprs)
			if err == nil {
				os.Remove(tmp)
				return vals, nil
			}
		}
		os.Remove(tmp)
	}
	return nil, fmt.Errorf("no model values available")
}

// parseGetValue parses "((e1 v1) (e2 v2))".
func parseGetValue(s string, exprs []string) (map[string]string, error) {
	toks := sexpTokens(s)
	pos := 0
	var parse func() (string, error)
	parse = func() (string, error) {
		if pos >= len(toks) {
			return "", fmt.Errorf("eof")
		}
		t := toks[pos]
		pos++
		if t != "(" {
			return t, nil
		}
		var parts []string
		for pos < len(toks) && toks[pos] != ")" {
			p, err := parse()
			if err != nil {
				return "", err
			}
			parts = append(parts, p)
		}
		pos++
		return "(" + strings.Join(parts, " ") + ")", nil
	}
	if len(toks) == 0 || toks[0] != "(" {
		return nil, fmt.Errorf("bad get-value output")
	}
	pos = 1
	out := map[string]string{}
	i := 0
	for pos < len(toks) && toks[pos] == "(" {
		pos++
		if _, err := parse(); err != nil {
			return nil, err
		}
		v, err := parse()
		if err != nil {
			return nil, err
		}
		pos++ // ")"
		if i < len(exprs) {
			out[exprs[i]] = v
		}
		i++
	}
	return out, nil
}

func sexpTokens(s string) []string {
	var out []string
	i := 0
	for i < len(s) {
		c := s[i]
		switch {
		case c == '(' || c == ')':
			out = append(out, string(c))
			i++
		case c == ' ' || c == '\n' || c == '\t' || c == '\r':
			i++
		case c == '"':
			j := i + 1
			for j < len(s) {
				if s[j] == '"' {
					if j+1 < len(s) && s[j+1] == '"' {
						j += 2
						continue
					}
					break
				}
				j++
			}
			out = append(out, s[i:j+1])
			i = j + 1
		default:
			j := i
			for j < len(s) && !strings.ContainsRune("() \n\t\r", rune(s[j])) {
				j++
			}
			out = append(out, s[i:j])
			i = j
		}
	}
	return out
}

var uEsc = regexp.MustCompile(`\\u\{([0-9a-fA-F]+)\}`)

// goValue converts an SMT model value to a Go value (string, int64, bool) where possible.
func goValue(v string) any {
	v = strings.TrimSpace(v)
	switch {
	case v == "true":
		return true
	case v == "false":
		return false
	case strings.HasPrefix(v, "\""):
		body := v[1 : len(v)-1]
		body = strings.ReplaceAll(body, `""`, `"`)
		body = uEsc.ReplaceAllStringFunc(body, func(m string) string {
			n, _ := strconv.ParseInt(uEsc.FindStringSubmatch(m)[1], 16, 32)
			if n < 256 {
				return string([]byte{byte(n)})
			}
			return string(rune(n))
		})
		return body
	case strings.HasPrefix(v, "#x") && len(v) == 18:
		if u, err := strconv.ParseUint(v[2:], 16, 64); err == nil {
			return int64(u)
		}
	case strings.HasPrefix(v, "(- "):
		n, err := strconv.ParseInt(strings.TrimSuffix(strings.TrimPrefix(v, "(- "), ")"), 10, 64)
		if err == nil {
			return -n
		}
	default:
		if n, err := strconv.ParseInt(v, 10, 64); err == nil {
			return n
		}
	}
	return v
}

// RunReplay instantiates the driver for a refuted obligation and runs it on the real code.
func RunReplay(spec ReplaySpec, r *Result, repo, verif, outDir string) *ReplayOutcome {
	out := &ReplayOutcome{Values: map[string]any{}}
	var names, exprs []string
	for n, e := range spec.Values {
		names = append(names, n)
		exprs = append(exprs, e)
	}
	if len(exprs) > 0 {
		vals, err := modelValues(r.File, exprs)
		if err != nil {
			out.Note = "model values unavailable: " + err.Error()
			return out
		}
		for i, n := range names {
			out.Values[n] = goValue(vals[exprs[i]])
		}
	}
	tsrc, err := os.ReadFile(filepath.Join(verif, "replay", spec.Template))
	if err != nil {
		out.Note = err.Error()
		return out
	}
	tmpl, err := template.New("replay").Funcs(template.FuncMap{
		"q": func(v any) string { return strconv.Quote(fmt.Sprint(v)) },
	}).Parse(string(tsrc))
	if err != nil {
		out.Note = "template: " + err.Error()
		return out
	}
	var buf bytes.Buffer
	if err := tmpl.Execute(&buf, map[string]any{"V": out.Values, "Obligation": r.Obl.Name}); err != nil {
		out.Note = "template: " + err.Error()
		return out
	}
	os.MkdirAll(outDir, 0o755)
	testFile := filepath.Join(outDir, sanitizeFile(r.Obl.Name)+".replay_test.go")
	os.WriteFile(testFile, buf.Bytes(), 0o644)
	out.TestFile = testFile
	target := filepath.Join(repo, spec.PkgDir, "zz_verif_replay_test.go")
	ov, _ := json.Marshal(map[string]any{"Replace": map[string]string{target: testFile}})
	ovFile := testFile + ".overlay.json"
	os.WriteFile(ovFile, ov, 0o644)
	ctx, cancel := context.WithTimeout(context.Background(), 240*time.Second)
	defer cancel()
	cmd := exec.CommandContext(ctx, "/usr/bin/go", "test", "-overlay", ovFile, "-vet=off", "-count=1", "-timeout", "60s", "-run", "^"+spec.Run+"$", "./"+spec.PkgDir)
	cmd.Dir = repo
	env := []string{}
	for _, e := range os.Environ() {
		if strings.HasPrefix(e, "GOFLAGS=") || strings.HasPrefix(e, "GOTOOLCHAIN=") || strings.HasPrefix(e, "PATH=") || strings.HasPrefix(e, "GOSUMDB=") || strings.HasPrefix(e, "GOPROXY=") {
			continue
		}
		env = append(env, e)
	}
	// the repository's own toolchain (default go, auto switch) builds the test
	env = append(env, "PATH=/usr/bin:/bin:/usr/local/bin", "GOFLAGS=", "GOTOOLCHAIN=auto", "GOPROXY=off")
	cmd.Env = env
	o, err := cmd.CombinedOutput()
	out.Output = string(o)
	if len(out.Output) > 6000 {
		out.Output = out.Output[:6000] + "...(truncated)"
	}
	switch {
	case err == nil:
		out.Note = "driver passed on the real code: the counter-model does not reproduce (contract or library-spec gap)"
	case strings.Contains(out.Output, "VERIF-REPLAY-VIOLATION"):
		out.Reproduced = true
		out.Note = "reproduced on the real code"
	default:
		out.Note = "driver failed to build or run"
	}
	return out
}
