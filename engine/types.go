package gov

import (
	"fmt"
	"go/types"
	"strings"
)

// TypeMap translates Go types to SMT sorts and owns the on-demand datatype
// declarations (one per by-value struct type declared in the module).
type TypeMap struct {
	sc        *Script
	modPrefix string // module path; struct types outside it are opaque when held by value
	structs   map[string]*StructInfo
	typeCodes map[string]int
	anon      map[string]string
}

type StructInfo struct {
	Name   string // datatype name
	Ctor   string
	Fields []FieldInfo
	T      *types.Struct
}

type FieldInfo struct {
	Name string
	Sel  string
	Sort Sort
	Type types.Type
}

func NewTypeMap(sc *Script, modPrefix string) *TypeMap {
	return &TypeMap{sc: sc, modPrefix: modPrefix, structs: map[string]*StructInfo{}, typeCodes: map[string]int{}, anon: map[string]string{}}
}

func shortPkg(p *types.Package) string {
	if p == nil {
		return ""
	}
	return p.Name()
}

// typeKey gives a stable readable name for a type (used in heap array and datatype names).
func typeKey(t types.Type) string {
	switch t := t.(type) {
	case *types.Named:
		o := t.Obj()
		n := o.Name()
		if ta := t.TypeArgs(); ta != nil && ta.Len() > 0 {
			var as []string
			for i := 0; i < ta.Len(); i++ {
				as = append(as, typeKey(ta.At(i)))
			}
			n += "[" + strings.Join(as, ",") + "]"
		}
		if o.Pkg() != nil {
			return o.Pkg().Name() + "." + n
		}
		return n
	case *types.Alias:
		return typeKey(types.Unalias(t))
	case *types.Pointer:
		return "*" + typeKey(t.Elem())
	case *types.Slice:
		return "[]" + typeKey(t.Elem())
	case *types.Map:
		return "map[" + typeKey(t.Key()) + "]" + typeKey(t.Elem())
	case *types.Basic:
		return t.Name()
	case *types.TypeParam:
		return "TP." + t.Obj().Name()
	}
	return types.TypeString(t, func(p *types.Package) string { return p.Name() })
}

func (tm *TypeMap) inModule(t *types.Named) bool {
	o := t.Obj()
	return o.Pkg() != nil && strings.HasPrefix(o.Pkg().Path(), tm.modPrefix)
}

// SortOf maps a Go type to the SMT sort of its values.
func (tm *TypeMap) SortOf(t types.Type) Sort {
	t = types.Unalias(t)
	switch u := t.Underlying().(type) {
	case *types.Basic:
		switch {
		case u.Info()&types.IsBoolean != 0:
			return SBool
		case u.Info()&types.IsInteger != 0:
			return SInt
		case u.Info()&types.IsString != 0:
			return SString
		case u.Info()&types.IsFloat != 0:
			return SF64
		case u.Kind() == types.UnsafePointer:
			return SInt
		case u.Kind() == types.UntypedNil:
			return SInt
		}
		return tm.opaque("B_" + u.Name())
	case *types.Pointer, *types.Map, *types.Chan, *types.Signature:
		return SInt
	case *types.Slice:
		return SSlice
	case *types.Interface:
		if _, ok := t.(*types.TypeParam); ok {
			return tm.opaque("TP_" + t.(*types.TypeParam).Obj().Name())
		}
		return SIface
	case *types.Struct:
		if n, ok := t.(*types.Named); ok && !tm.inModule(n) {
			return tm.opaque("X_" + sanitize(typeKey(n)))
		}
		return Sort(tm.Struct(t).Name)
	case *types.Array:
		return ArraySort(SInt, tm.SortOf(u.Elem()))
	case *types.Tuple:
		return tm.opaque("Tuple")
	}
	if strings.Contains(t.String(), "deferStack") {
		return SInt
	}
	return tm.opaque("O_" + sanitize(typeKey(t)))
}

func (tm *TypeMap) opaque(name string) Sort {
	tm.sc.Preamble("sort:"+name, fmt.Sprintf("(declare-sort %s 0)", name))
	return Sort(name)
}

// Struct returns the datatype description of a by-value struct type.
func (tm *TypeMap) Struct(t types.Type) *StructInfo {
	t = types.Unalias(t)
	st, ok := t.Underlying().(*types.Struct)
	if !ok {
		panic("not a struct: " + t.String())
	}
	var key string
	if n, ok := t.(*types.Named); ok {
		key = "S_" + sanitize(typeKey(n))
	} else {
		ts := st.String()
		if k, ok := tm.anon[ts]; ok {
			key = k
		} else {
			key = fmt.Sprintf("S_anon%d", len(tm.anon))
			tm.anon[ts] = key
		}
	}
	if si, ok := tm.structs[key]; ok {
		return si
	}
	si := &StructInfo{Name: key, Ctor: "mk-" + key, T: st}
	tm.structs[key] = si // before recursion (recursive by-value structs are impossible in Go)
	for i := 0; i < st.NumFields(); i++ {
		f := st.Field(i)
		fs := tm.SortOf(f.Type())
		si.Fields = append(si.Fields, FieldInfo{Name: f.Name(), Sel: fmt.Sprintf("%s.%s", key, sanitize(f.Name())), Sort: fs, Type: f.Type()})
	}
	var b strings.Builder
	fmt.Fprintf(&b, "(declare-datatypes ((%s 0)) (((%s", key, si.Ctor)
	if len(si.Fields) == 0 {
		// keep a dummy field so the constructor is well-formed
		fmt.Fprintf(&b, " (%s.$dummy Bool)", key)
	}
	for _, f := range si.Fields {
		fmt.Fprintf(&b, " (%s %s)", f.Sel, f.Sort)
	}
	b.WriteString("))))")
	tm.sc.Preamble("dt:"+key, b.String())
	return si
}

// Zero returns the zero value of a type.
func (tm *TypeMap) Zero(t types.Type) Term {
	t = types.Unalias(t)
	s := tm.SortOf(t)
	switch s {
	case SInt:
		return IntLit(0)
	case SBool:
		return False
	case SString:
		return StrLit("")
	case SSlice:
		return T("(mk-slice 0 0 0 0)", SSlice)
	case SIface:
		return T("(mk-iface 0 0)", SIface)
	}
	if _, ok := t.Underlying().(*types.Struct); ok {
		if n, isNamed := t.(*types.Named); !isNamed || tm.inModule(n) {
			si := tm.Struct(t)
			if len(si.Fields) == 0 {
				return T("("+si.Ctor+" false)", s)
			}
			args := make([]Term, len(si.Fields))
			for i, f := range si.Fields {
				args[i] = tm.Zero(f.Type)
			}
			return app(s, si.Ctor, args...)
		}
	}
	if a, ok := t.Underlying().(*types.Array); ok {
		return T(fmt.Sprintf("((as const %s) %s)", s, tm.Zero(a.Elem()).S), s)
	}
	name := "zero." + sanitize(string(s))
	tm.sc.Preamble("zero:"+name, fmt.Sprintf("(declare-fun %s () %s)", name, s))
	return T(name, s)
}

// TypeCode returns the dynamic-type tag of a concrete type stored in an interface.
func (tm *TypeMap) TypeCode(t types.Type) Term {
	k := typeKey(types.Unalias(t))
	c, ok := tm.typeCodes[k]
	if !ok {
		c = len(tm.typeCodes) + 1
		tm.typeCodes[k] = c
	}
	return IntLit(int64(c))
}

// IntRange returns the (lo, hi) bounds of a machine integer type as decimal strings, ok=false for non-integers.
func IntRange(t types.Type) (lo, hi string, ok bool) {
	b, isB := types.Unalias(t).Underlying().(*types.Basic)
	if !isB || b.Info()&types.IsInteger == 0 {
		return "", "", false
	}
	switch b.Kind() {
	case types.Int, types.Int64, types.UntypedInt:
		return "-9223372036854775808", "9223372036854775807", true
	case types.Int32, types.UntypedRune:
		return "-2147483648", "2147483647", true
	case types.Int16:
		return "-32768", "32767", true
	case types.Int8:
		return "-128", "127", true
	case types.Uint, types.Uint64, types.Uintptr:
		return "0", "18446744073709551615", true
	case types.Uint32:
		return "0", "4294967295", true
	case types.Uint16:
		return "0", "65535", true
	case types.Uint8:
		return "0", "255", true
	}
	return "", "", false
}

func isRefLike(t types.Type) bool {
	switch types.Unalias(t).Underlying().(type) {
	case *types.Pointer, *types.Map, *types.Chan, *types.Signature:
		return true
	}
	return false
}

const nilIfaceLit = "(mk-iface 0 0)"
const nilSliceLit = "(mk-slice 0 0 0 0)"

func isNilIfaceTerm(t Term) bool { return t.S == "nil-iface" || t.S == nilIfaceLit }
func isNilSliceTerm(t Term) bool { return t.S == "nil-slice" || t.S == nilSliceLit }
