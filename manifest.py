#!/usr/bin/env python3
"""Regenerates MANIFEST.json from the table below (run after changing what is claimed)."""
import json, subprocess

TECH = "contract-based deductive verification: weakest-precondition VCs generated over go/ssa of /repo's working tree from //@ contracts, discharged by z3 5.1/z3 4.8/cvc5"

mon = 'the connection monitor (all state behind Connection.updateInFlight): each of the 17 action literals is verified together with the epilogue of updateInFlight against the monitor invariant and two-state transition clauses, so they hold for every interleaving of any number of goroutines (lock discipline and close-only channels are checked syntactically)'
montrust = "Trusted: while stateMu is held, code reached through calls (closer.Close, onDone, cancel functions) cannot modify the protected state (non-reentrant mutex); ownership facts assumed, not machine-checked: ids drawn from the atomic counter are unique and a freshly allocated call object is unshared (Call$1), each goroutine's own counter contribution is still counted (Notify$1$1, processResult$2), acceptRequest runs on the reader goroutine (s.reading); in-flight counters stay below 2^62; select/receive on close-only channels; library contracts of stdlib.spec; VC generator/go-ssa/solvers."

CLAIMED = {
 "C14": dict(
  text="Proof (all inputs): auth.verify is verified against an if-and-only-if admission contract taken from the property statement, plus exact status mapping, verifier called at most once and only with the presented token, and panic-freedom; loop invariant over the scope loop. Violations are failed named obligations.",
  note="Trusted: library contracts in specs/stdlib.spec (strings.Fields/ToLower, slices.Contains, errors.Is, time.Time.IsZero/Add/Before, http.Header.Get as uninterpreted functions), the VC generator, go/ssa, the solvers. The verifier callback and user handler are havocked (any behaviour). Not decided: content of the WWW-Authenticate challenge string, time arithmetic inside package time.",
  ref="DESIGN.md 10/C14"),
 "C07": dict(
  text="Proof (all inputs) of the negotiation kernel: negotiatedVersion, negotiateMutuallySupportedVersion (loop invariant), both transports' SupportsProtocolVersion against contracts transcribed from the statement; the package initializer is shown to establish the supported-version list and a frame check shows the list is never reassigned, mutated or aliased.",
  note="Trusted: slices.Contains contract, SMT string order for version comparison, the VC generator/go-ssa/solvers. Not yet under contract (hence not decided): filterSupportedVersions, Server.discover, Client.discover, Client.Connect (the composition 'every connected session negotiated a mutually supported version' is argued in DESIGN.md from these kernels); 'can immediately list and call tools' is not decidable by contracts.",
  ref="DESIGN.md 10/C07"),
 "C06": dict(
  text="Proof (all inputs, hence by induction all message sequences): the receive gate of ServerSession.handle as assertions at the dispatch point (legacy uninitialized => only lifecycle methods; new protocol => supported version and no removed method; discover needs metadata), exact error codes, ping always served; validateRequestMeta (new protocol only with version >= 2026-07-28 and decodable capabilities/clientInfo, errors are -32602); initialize/initialized transitions (duplicate/premature rejected with state unchanged, user handler not run). The check found defect F1 (setLevel/subscribe/unsubscribe/roots-list-changed bypassed the gate), reproduced on the real code and repaired by a fix: commit.",
  note="Trusted: stdlib.spec contracts (fmt.Errorf non-nil, slices.Contains, json decoders write only through their destination), extractRequestMeta modelled as heap-preserving (trusted), the interface contract of serverConnection.sessionUpdated (its only implementation is verified against it), user handlers havocked. Per-message sequential semantics: the lifecycle bit is the value read under ss.mu at the top of handle.",
  ref="DESIGN.md 10/C06"),
 "C20": dict(
  text="Proof (all inputs and, by induction over the representation invariant, all operation histories): dataList.appendData/removeFirst, MemoryEventStore.init/Open/Append/purge (three nested loop invariants)/SetMaxBytes/SessionClosed/After (both closures) and the constructor are verified against contracts stating: payloads are addressed by absolute index, eviction is oldest-first and never moves or alters a retained payload, Append assigns the next index, After returns exactly the retained suffix after the index (private copy) or an ErrEventsPurged-wrapping error (index arithmetic checked in 64-bit wrap-around semantics), bytes after Append exceed the budget by at most the new payload, closing a session removes exactly its streams; per-stream byte accounting size == sum of payload lengths; frames for every function. Found defect F7 (After index wrap-around), reproduced on the real code and repaired by a fix: commit.",
  note="Trusted: sumlen axioms (non-negative, empty, split, point update), slices.Clone and fmt.Errorf/errors.Is contracts, the mk() trigger device, VC generator/go-ssa/solvers. Assumed as API preconditions: fewer than 2^63-1 appends per stream and byte totals below 2^63 (index/size arithmetic in range). Not yet decided: the global accounting equality nBytes == sum of stream sizes (hence unreachability of purge's 'no progress' panic), lock discipline of s.mu (safe under concurrent use) and the iterator's yield of a snapshot that the consumer cannot alter.",
  ref="DESIGN.md 10/C20"),
 "C17": dict(
  text="Proof (all inputs/histories of the feature set): featureSet.add/remove/sortKeys/above/yieldFrom verified against the representation invariant (the lazily built index is absent or the strictly ascending list of exactly the registered ids), membership/frame postconditions, 'above(uid) starts at the first id strictly greater than uid' (BinarySearch contract), in-order yield with stop; paginateList thin contract: undecodable cursor => invalid-params and nothing iterated, otherwise resumes with above(cursor's id), first page uses all().",
  note="Trusted: uniqueID functions are pure (uidOf), slices.Sorted(maps.Keys(m)) and slices.BinarySearch contracts over an uninterpreted strict total order, cursor codec (gob/base64) frames, cursorPtr accessors. Not decided here (argued in DESIGN.md from these contracts): page contents produced by the range-over-func loop of paginateList (count/break logic, next cursor = id of last item), the keyset disjoint/covering lemmas across pages, the client-side iterators, and that no cursor bytes can crash the gob decoder.",
  ref="DESIGN.md 10/C17"),
 "C13": dict(
  text="Proof (all ping-outcome sequences, by loop invariant): the keep-alive goroutine's counter equals the number of consecutive failed pings (ghost variable defined from ping results), Close is called at most once and exactly when that number reaches the threshold, a method-not-found answer ends keep-alive without closing and is never followed by another ping, every exit either passed through the select again or closed/ended for method-not-found (a failed ping is never dropped), the ticker is stopped on every exit, period = interval, ping context timeout = interval/2; the parent normalises the threshold to >= 1 before starting the goroutine.",
  note="Trusted: errors.Is model, select/receive modelled as nondeterministic choice, session.Ping/Close havocked (any behaviour). Not decided: wall-clock bound (derived on paper from period and timeout), goroutine scheduling, dropped ticks; that Server/Client.Connect start keep-alive and Close cancels it.",
  ref="DESIGN.md 10/C13"),
 "C01": dict(
  text="Proof over all schedules via "+mon+": a pending call is open, registered under its own id and has its own channel (K1,K1b); removal from the table completes the call (T2); completion is final (T3) and carries a response with the call's own id (T4); nothing is admitted after shutdown began (T5); once done is closed nothing is pending (K4); 'retire called twice' and the other protocol panics are unreachable in every action; Call draws exactly one fresh id (counter discipline) and never completes a call twice; mcp.call maps closing errors to ErrConnectionClosed and retires an abandoned call before returning.",
  note=montrust+" Not decided: that a blocked Await is woken (Go runtime), promptness, liveness.",
  ref="DESIGN.md 10.0, 10/C01"),
 "C02": dict(
  text="Proof: processResult answers a call at most once, removes it from the index before writing, echoes the request's id in the response it builds, maps not-handled/method-not-found to -32601, never answers a notification and releases the in-flight slot exactly once; the connection monitor shows indexed requests are never replaced (T7) and counted (K2b); ioConn.updateBatch returns the batch reply exactly when that batch's last call is resolved; ioConn.Read tracks exactly the calls of a batch (defect F2 found here, reproduced on the real code and repaired by a fix: commit).",
  note=montrust+" Not yet under contract: checkRequest/unmarshalParams error codes, the HTTP pre-validation paths of the streamable and SSE transports, acceptRequest's four paths as one exactly-once statement.",
  ref="DESIGN.md 10/C02"),
 "C03": dict(
  text="Proof: the dispatcher (handleAsync) starts a handler only after the previous handler's releaser channel is closed (loop invariant over a ghost variable; receive on a close-only channel), the handler goroutine releases only after Handle returned (deferred soft release) or when the handler itself called Async; releaser.release closes exactly once; ServerSession.handle calls Async at most once and only for calls other than initialize; the monitor gives FIFO-compatible queue discipline (nothing enqueued during shutdown, dispatcher owns the queue).",
  note=montrust+" The releaser object invariant (released <=> channel closed) is assumed at entry of release. Not decided: FIFO order of the queue contents (T6), transports delivering bytes in order, ClientSession.handle, 'observed by the peer'.",
  ref="DESIGN.md 10/C03"),
 "C04": dict(
  text="Proof: Connection.write marks the connection broken only when the failure is attributable neither to the caller's context nor to a transport rejection (so cancelled or rejected writes leave the session usable); mcp.call retires the abandoned call before returning, sends the cancellation notice only from a separate goroutine whose context keeps the caller's values, drops its cancellation and is bounded by the notification timeout; the monitor shows a late response to a retired call changes nothing (T3/T7) and Cancel's action only reads the index.",
  note=montrust+" Not yet under contract: canceller.Preempt (maps notifications/cancelled to Cancel(id)), Connection.Cancel's use of the looked-up request. Not decided: promptness in time, stalled writers.",
  ref="DESIGN.md 10/C04"),
 "C05": dict(
  text="Proof over all schedules via the connection monitor: the transport closer is consumed only when the connection is idle and shutting down, and at most once (T9, K7); done is closed only when additionally the reader is gone, and then stays closed (K4, T1); shutdown flags are monotone; nothing is enqueued and no call admitted during shutdown (T5, T5b); Notify gives back its pending-notification slot on every path exactly when it took one; the 'transitioned to non-idle when already done' and 'incoming count already zero' panics are unreachable.",
  note=montrust+" Not decided (liveness / whole-history): that Close and Wait return, absence of deadlock and of leaked goroutines or timers; session-level Close ordering (ServerSession.Close, disconnect) not yet under contract.",
  ref="DESIGN.md 10/C05"),
 "C12": dict(
  text="Proof (all requests and handler options): StreamableHTTPHandler.ServeHTTP is verified against a contract over ghost call logs: every request is either handed to exactly one of serveStateless/serveStateful or rejected with exactly one http.Error, never both; a dispatched request with a body and a configured limit has its body wrapped by http.MaxBytesReader with exactly that limit; a non-loopback Host on a loopback listener and a failed cross-origin check are rejected with 403 before dispatch; an unsupported legacy Mcp-Protocol-Version header is rejected before dispatch; stateless dispatch iff configured. collectParamHeaderAnnotations: every produced binding has a freshly allocated path and earlier bindings are unchanged (loop invariants).",
  note="Trusted: util.IsLoopback, http.MaxBytesReader, CrossOriginProtection.Check, context/net accessors (stdlib.spec), A-FRAME for library calls. Not decided: method/Accept/Content-Type/session checks inside serveStateless/servePOST/serveGET (not under contract), the 2026-07-28 header/body agreement in validateMcpHeaders (suspected defect F3: empty Mcp-Method header, not yet under contract), client-side header mirroring, SSE handler.",
  ref="DESIGN.md 10/C12"),
 "C19": dict(
  text="Proof (all inputs) for the SDK-owned part of the JSON-RPC codec: MakeID/StringID/Int64ID/IsValid (type-preserving id coercion), decodeID (an id that strconv.ParseInt accepts becomes exactly that int64 with no float64 step; otherwise MakeID of the generic decode), DecodeMessage after the library decode (exactly one of message/error; id error propagates; a message with a method key is a Request carrying the decoded id; otherwise a Response with a valid id), Request/Response.marshal (id value, method, params, result copied; error mapped by toWireError), WireError.Is (code equality). A raw QF_BVFP lemma decides float64 coercion exactness: proved for |n| <= 2^53, refuted over the whole int64 range - that refutation found defect F4 (message ids above 2^53 altered), repaired by a fix: commit; the residue (ids inside params still coerced through float64) is a listed known finding.",
  note="Trusted: encoding/json and internal/json (Unmarshal writes only through its destination; number -> float64 nearest-double axiom J1), strconv.ParseInt (opaque: exact by its documentation), fmt.Errorf non-nil. Not decided: byte-level round trip through encoding/json, ndjson/SSE framing (C09 territory), content/result custom JSON methods in mcp/content.go and mcp/protocol.go, never-panics-on-arbitrary-bytes of the library decoders.",
  ref="DESIGN.md 10/C19"),
 "C11": dict(
  text="Proof over all schedules via two lock-style monitors plus per-function contracts. Monitor timerMu (sessionInfo.timerMu): in every critical section (startPOST, endPOST, stopTimer) the in-flight POST count stays >= 0, a stopped timer stays stopped and is never replaced, and the idle timer is never armed while a POST is in flight (ghost attribute armed, set by AfterFunc/Reset, cleared by Stop); lock discipline for refs/timer by a flow analysis. Monitor hmu (StreamableHTTPHandler.mu): every table entry is a session; the table is touched only under the lock (so the stateless path never touches it). Contracts (all inputs): lookupSession (id not in table => 404; user-bound session and absent/different user => 403; proceeds only for the owner, with exactly the table entry), stateful DELETE/GET/POST (only a request let through by lookupSession reaches the session or closes it; POST with an id is counted in flight exactly while served and mints nothing; ids minted only without one), onClose hook (closed session is removed from the table and its timer stopped), serveStateless (non-POST => 405, no id read or minted, temporary session closed).",
  note="Trusted: A-TIMER (a timer's function runs only while armed; Stop disarms, Reset/AfterFunc arm), fewer than 2^62 POSTs in flight, serveStatefulPOST initialises sessionInfo before publishing it (unpublished exemption), http.Error/Header.Get/Values/mime specs, auth.TokenInfoFromContext and ServerSession.Close/ServeHTTP opaque (tracked), code called while a lock is held does not re-enter it. Not decided: that session.Close always runs onClose (ServerSession.Close is outside the contracts), wall-clock behaviour of the timer, the race where the timer fires just before startPOST stops it, duplicate ids from a user-supplied GetSessionID, endPOST's 'negative ref count' panic (needs call-pairing history).",
  ref="DESIGN.md 10/C11"),
 "C18": dict(
  text="Proof over all schedules via the lock-style monitor on Server.mu (debounce timers, subscription tables, session list; every function that locks it is a verified critical-section unit, lock discipline by flow analysis) plus contracts: changeAndNotify - the change runs once under the lock; if it changed something, the capability is on and a session is connected, then at unlock a debounce timer for that kind exists and is armed (created or re-armed after the change), and nothing is scheduled without a change or with the capability off; shouldSendListChangedNotification - exact capability gate; notifySessions - the timer slot is cleared in the same critical section that reads the recipients, the lock is released before notifying, legacy sessions and a clone of exactly this kind's subscribers are notified; ResourceUpdated - only sessions subscribed to that URI at the time of the read are notified (loop invariants), modern ones with their own request id; subscribe/unsubscribe - exactly that (uri, session) pair is recorded/removed, other sessions and URIs untouched, an entry is dropped only when empty; disconnect - the session is removed from every table (loop invariant over the per-URI tables); client handlers - the session's cached answers are dropped before the application handler is called.",
  note="Trusted: A-TIMER (see C11), maps.Clone/slices.DeleteFunc/Logger frames, change callbacks and user handlers modelled as arbitrary code that does not touch lock-protected state (justified for module code by the discipline obligation), subscriptionsListen's critical sections (trust-section: defer inside a loop is outside the engine), InitializeParams pure. Not decided: that the armed timer eventually fires and notifySessions delivers (liveness), which sessions are 'legacy' in notifySessions' loop, completeness half of ResourceUpdated (every subscriber is in one of the two lists), the client TTL cache itself (generic methodCache: get/put expiry), identity of the cache that is dropped (no address-of in the contract language).",
  ref="DESIGN.md 10/C18"),
}

NOT_YET = "contracts not completed yet (build in progress; see DESIGN.md section 12)"
NA = {}

props = [json.loads(l) for l in open('/verif/properties.jsonl')]
hooks = subprocess.run(['git','-C','/repo','log','--format=%H','--grep=^verif hook:'],capture_output=True,text=True).stdout.split()
checks = []
for p in props:
    i = p['id']
    if i in CLAIMED:
        c = CLAIMED[i]
        checks.append({
         "property_id": i,
         "quick_cmd": f"./check {i} --tier quick",
         "thorough_cmd": f"./check {i} --tier thorough",
         "evidence_file": f"/verif/evidence/{i}.json",
         "replay_cmd_template": f"./check {i} --replay {{path}}",
         "engine": "gov",
         "level_claimed": {"category": "proof", "text": c['text'], "design_ref": c['ref']},
         "level_note": c['note'],
         "technique": TECH})
m = {"version": 1,
 "setup_cmd": "cd /verif && ./setup.sh",
 "hooks": {"guard": "verif", "enable": "-tags verif (comment-only contracts_verif.go files, loaded by the engine with this tag; they declare nothing)",
           "baseline_off_cmd": "cd /repo && go build ./... && go test -vet=off -count=1 -timeout 25m ./...",
           "source_commits": hooks, "add_only": True},
 "engines": [{"name": "gov", "path": "/verif/engine", "serves_properties": sorted(CLAIMED),
              "kind_free_text": "VC generator over go/ssa (NaiveForm) of /repo's working tree; contracts in //@ comments of <pkg>/contracts_verif.go; obligations discharged by z3 4.8.12 / z3 5.1.0 / cvc5 1.0.3"}],
 "checks": checks,
 "notes": "See DESIGN.md. Known findings: /verif/known-findings.jsonl. Seeded changes: /verif/seeded/.",
 "not_applicable": [{"property_id": p['id'], "reason": NA.get(p['id'], NOT_YET)} for p in props if p['id'] not in CLAIMED]}
json.dump(m, open('/verif/MANIFEST.json','w'), indent=1)
print("claimed:", sorted(CLAIMED))
