; property: C19
; obligation: jsonrpc2.MakeID#exactness:ids-up-to-2^53-survive-decoding
; Same statement restricted to |n| <= 2^53 (the range in which float64 represents every integer).
(set-logic QF_BVFP)
(set-option :produce-models true)
(declare-const n (_ BitVec 64))
(define-fun f () (_ FloatingPoint 11 53) ((_ to_fp 11 53) RNE n))
(define-fun back () (_ BitVec 64) ((_ fp.to_sbv 64) RTZ f))
(assert (bvsle n #x0020000000000000))
(assert (bvsge n #xffe0000000000000))
(assert (not (= back n)))
(check-sat)
(get-value (n back))
