; property: C12
; obligation: float64#exact-integers:finite-trunc-abs-neg
; Such integers are finite, equal to their truncation, and abs/neg act as on integers.
(set-logic QF_BVFP)
(set-option :produce-models true)
(define-fun safe ((x (_ BitVec 64))) Bool (and (bvsle x #x0020000000000000) (bvsge x #xffe0000000000000)))
(define-fun of ((x (_ BitVec 64))) (_ FloatingPoint 11 53) ((_ to_fp 11 53) RNE x))
(declare-const a (_ BitVec 64))
(assert (safe a))
(assert (not (and (not (fp.isNaN (of a))) (not (fp.isInfinite (of a))) (fp.eq (of a) (fp.roundToIntegral RTZ (of a))) (= (fp.roundToIntegral RTZ (of a)) (of a))
  (= (fp.abs (of a)) (of (ite (bvslt a #x0000000000000000) (bvneg a) a))) (or (= a #x0000000000000000) (= (fp.neg (of a)) (of (bvneg a)))))))
(check-sat)
(get-value (a))
