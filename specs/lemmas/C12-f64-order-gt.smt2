; property: C12
; obligation: float64#exact-integers:order-gt
; On integers of magnitude <= 2^53, float64 fp.gt is integer bvsgt.
(set-logic QF_BVFP)
(set-option :produce-models true)
(define-fun safe ((x (_ BitVec 64))) Bool (and (bvsle x #x0020000000000000) (bvsge x #xffe0000000000000)))
(define-fun of ((x (_ BitVec 64))) (_ FloatingPoint 11 53) ((_ to_fp 11 53) RNE x))
(declare-const a (_ BitVec 64))
(declare-const b (_ BitVec 64))
(assert (safe a))
(assert (safe b))
(assert (not (= (fp.gt (of a) (of b)) (bvsgt a b))))
(check-sat)
(get-value (a b))
