; property: C12
; obligation: float64#exact-integers:bounded-conversion
; A float64 that is not NaN and lies between two such integers converts (truncation toward zero) to an integer between them.
(set-logic QF_BVFP)
(set-option :produce-models true)
(define-fun safe ((x (_ BitVec 64))) Bool (and (bvsle x #x0020000000000000) (bvsge x #xffe0000000000000)))
(define-fun of ((x (_ BitVec 64))) (_ FloatingPoint 11 53) ((_ to_fp 11 53) RNE x))
(declare-const x (_ FloatingPoint 11 53))
(declare-const lo (_ BitVec 64))
(declare-const hi (_ BitVec 64))
(assert (safe lo))
(assert (safe hi))
(assert (not (fp.isNaN x)))
(assert (not (fp.lt x (of lo))))
(assert (not (fp.gt x (of hi))))
(assert (not (and (bvsle lo ((_ fp.to_sbv 64) RTZ x)) (bvsle ((_ fp.to_sbv 64) RTZ x) hi))))
(check-sat)
(get-value (x lo hi))
