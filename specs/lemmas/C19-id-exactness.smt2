; property: C19
; obligation: jsonrpc2.MakeID#exactness:every-int64-survives-float64-coercion
; MakeID(float64) is still how ids that arrive *inside params* are coerced (e.g. the requestId of
; notifications/cancelled, decoded by encoding/json into interface{} = float64, axiom J1). For that coercion to be
; exact one needs, for every int64 n:  to_int64(to_float64(n)) == n.  (Message ids themselves are parsed exactly
; since the fix recorded in known-findings.jsonl.)
; The negation is asserted: unsat = holds for all n.
(set-logic QF_BVFP)
(set-option :produce-models true)
(declare-const n (_ BitVec 64))
(define-fun f () (_ FloatingPoint 11 53) ((_ to_fp 11 53) RNE n))
; int64(f) in Go truncates toward zero (f is finite and in range here)
(define-fun back () (_ BitVec 64) ((_ fp.to_sbv 64) RTZ f))
(assert (not (= back n)))
(check-sat)
(get-value (n back))
