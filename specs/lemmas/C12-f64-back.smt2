; property: C12
; obligation: float64#exact-integers:back
; Converting such an integer to float64 and back (truncation toward zero) gives the integer.
(set-logic QF_BVFP)
(set-option :produce-models true)
(define-fun safe ((x (_ BitVec 64))) Bool (and (bvsle x #x0020000000000000) (bvsge x #xffe0000000000000)))
(define-fun of ((x (_ BitVec 64))) (_ FloatingPoint 11 53) ((_ to_fp 11 53) RNE x))
(declare-const a (_ BitVec 64))
(assert (safe a))
(assert (not (= ((_ fp.to_sbv 64) RTZ (of a)) a)))
(check-sat)
(get-value (a))
