#!/bin/sh
# Build the VC generator from files on disk only (module cache, no network).
set -e
cd /verif/engine
export PATH=/opt/veriftools/go1.26.8/bin:$PATH GOTOOLCHAIN=local GOFLAGS=-mod=mod GOPROXY=off GOSUMDB=off
mkdir -p /verif/bin
go build -o /verif/bin/gov ./cmd/gov
