// Demonstration of defect F7 (C20) on the code before the fix: index arithmetic in MemoryEventStore.After wraps.
// Run (from /repo, injected in-package):
//   go test -overlay <overlay mapping mcp/zz_f7_test.go to this file> -vet=off -run TestVerifF7 ./mcp
package mcp

import (
	"context"
	"errors"
	"math"
	"testing"
)

func TestVerifF7(t *testing.T) {
	ctx := context.Background()
	s := NewMemoryEventStore(nil)
	s.Append(ctx, "S", "T", []byte("a"))
	// nothing was appended after index MaxInt: the exact answer is the empty sequence, not "purged"
	for _, err := range s.After(ctx, "S", "T", math.MaxInt) {
		if errors.Is(err, ErrEventsPurged) {
			t.Errorf("VERIF-REPLAY-VIOLATION: After(MaxInt) on a stream with first==0 reports ErrEventsPurged (index+1 wrapped)")
		}
	}
	// evict two items so that first == 2, then ask after MinInt: items 0 and 1 are gone, the answer must be "purged"
	s2 := NewMemoryEventStore(nil)
	s2.SetMaxBytes(1)
	for _, p := range []string{"a", "b", "c", "d", "e"} {
		s2.Append(ctx, "S", "T", []byte(p))
	}
	sawErr := false
	for _, err := range s2.After(ctx, "S", "T", math.MinInt) {
		if errors.Is(err, ErrEventsPurged) {
			sawErr = true
		}
	}
	if !sawErr {
		t.Errorf("VERIF-REPLAY-VIOLATION: After(MinInt) with evicted items does not report ErrEventsPurged ((index+1)-first wrapped)")
	}
}
