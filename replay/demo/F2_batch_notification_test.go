// Demonstration of defect F2 (C02) on the code before the fix: ioConn.Read tracks notifications of a JSON-RPC batch
// as if they were calls, so the batch reply is withheld for ever (a notification is never answered), and a batch
// with two notifications is rejected as "duplicate message ID".
package mcp

import (
	"context"
	"io"
	"strings"
	"testing"
	"time"

	"github.com/modelcontextprotocol/go-sdk/jsonrpc"
)

type f2rwc struct {
	io.Reader
	w *strings.Builder
}

func (r f2rwc) Write(p []byte) (int, error) { return r.w.Write(p) }
func (f2rwc) Close() error                  { return nil }

func TestVerifF2(t *testing.T) {
	ctx, cancel := context.WithTimeout(context.Background(), 5*time.Second)
	defer cancel()
	// one call and one notification in a batch (protocol version default: batching allowed)
	in := `[{"jsonrpc":"2.0","id":1,"method":"ping"},{"jsonrpc":"2.0","method":"notifications/initialized"}]` + "\n"
	var out strings.Builder
	pr, pw := io.Pipe()
	go func() { pw.Write([]byte(in)) }()
	c := newIOConn(f2rwc{pr, &out})
	m1, err := c.Read(ctx)
	if err != nil {
		t.Fatalf("VERIF-REPLAY-VIOLATION: batch [call, notification] rejected: %v", err)
	}
	req := m1.(*jsonrpc.Request)
	// answer the call: the reply to the batch must now be written (the notification gets no response)
	if err := c.Write(ctx, &jsonrpc.Response{ID: req.ID, Result: []byte(`{}`)}); err != nil {
		t.Fatal(err)
	}
	if out.Len() == 0 {
		t.Fatalf("VERIF-REPLAY-VIOLATION: the call of a batch [call, notification] was answered but the batch reply is withheld (the notification is tracked as an unresolved call)")
	}
	// two notifications in one batch
	in2 := `[{"jsonrpc":"2.0","method":"notifications/a"},{"jsonrpc":"2.0","method":"notifications/b"}]` + "\n"
	pr2, pw2 := io.Pipe()
	go func() { pw2.Write([]byte(in2)) }()
	c2 := newIOConn(f2rwc{pr2, &out})
	if _, err := c2.Read(ctx); err != nil {
		t.Fatalf("VERIF-REPLAY-VIOLATION: batch of two notifications rejected: %v", err)
	}
}
