#!/bin/sh
# modelvals.sh file.smt2 sym1 sym2 ... : prints model values of the given symbols
f=$1; shift
tmp=$(mktemp /tmp/mv.XXXXXX.smt2)
grep -v "^(get-model)" $f > $tmp
echo "(get-value ($*))" >> $tmp
z3-new -T:60 $tmp | tail -n +2
rm -f $tmp
