#!/bin/sh
# try_seed.sh <prop> <patch.diff> : apply a seeded change to /repo, run the property's quick check, undo.
prop=$1; patch=$2
cd /repo || exit 2
if [ -n "$(git status --porcelain)" ]; then echo "REFUSING: /repo has uncommitted changes (commit contract edits first)"; exit 2; fi
git apply --check "$patch" || { echo "patch does not apply"; exit 2; }
git apply "$patch"
cd /verif && ./check $prop --tier quick --no-evidence 2>&1 | grep -v "^  proved\|cover:sat" | tail -15
rc=$?
git -C /repo checkout -- . 
git -C /repo status --short | head -3
