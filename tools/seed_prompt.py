#!/usr/bin/env python3
"""Prints the prompt given to a fresh sub-agent that seeds a property-breaking change (nothing from /verif is shown to it)."""
import json, sys
pid = sys.argv[1]
for l in open('/verif/properties.jsonl'):
    p = json.loads(l)
    if p['id'] == pid:
        break
print(f"""You are testing a verification effort for the Go repository modelcontextprotocol/go-sdk (the official Go SDK for the Model Context Protocol). You have your own scratch git worktree of the repository at /tmp/seed/{pid} (a detached checkout of the pinned commit). Work ONLY inside /tmp/seed/{pid} and /tmp/seed-out/{pid}; never touch /repo or /verif and do not read anything under /verif.

Here is a semantic property the SDK is supposed to satisfy:

  Title: {p['title']}
  Statement: {p['statement']}
  It must hold: {p['quantifier']['text']}

Your task: produce TWO different, realistic changes (bugs) to the SDK's non-test Go source code, each of which BREAKS this property while (a) the repository still compiles (`go build ./...`), and (b) the ENTIRE existing test suite still passes unchanged (`go test -count=1 ./...` from the worktree root; it takes about 30-60 s; do not edit, add to, or delete existing tests as part of the change). Each change should be the kind of slip a maintainer could plausibly make in a refactor or "optimisation" (an off-by-one, a dropped check, a reordered pair of statements, a wrong variable, a lock released too early, a missed invalidation, a condition that is right for the common case only), NOT something ordinary use would expose at once. Prefer changes that need something specific to manifest: a particular interleaving, a fault at a particular point, a multi-step sequence of operations, an unusual input or boundary value, or two cooperating sites that each look fine alone. The two changes must be in different functions or break different clauses of the statement.

For each change i in {{1,2}} write into /tmp/seed-out/{pid}/{{i}}/ :
  - patch.diff : `git diff` of the change against the pinned commit (non-test source only; it must apply with `git apply` to a clean checkout),
  - demo_test.go (or a small main program) : a demonstration that FAILS with the change applied and PASSES without it; for an in-package test say which package directory it must be copied into (put that in meta.json) and give the exact `go test -run ... ./pkg` command,
  - meta.json : {{"property": "{pid}", "what_breaks": "...which clause of the statement is violated and how...", "needs_to_manifest": "...the specific input / sequence / interleaving needed...", "files_changed": [...], "demo_pkg_dir": "...", "demo_cmd": "...", "suite_passes_with_change": true}}.

Procedure you must follow and confirm yourself for each change: apply it in the worktree; run `go build ./...`; run the full `go test -count=1 ./...` and confirm everything passes (if an existing test fails, the change is not acceptable: pick another); copy the demonstration into place and confirm it FAILS; then `git stash`/revert the change and confirm the demonstration PASSES on the original code; finally remove the demonstration file from the worktree and leave the worktree clean (`git status` clean) before starting the next change. Environment notes: there is no network; run go commands with the default environment from inside the worktree (do not set GOFLAGS); the Go toolchain needed is already cached. Use `-timeout 120s` on demonstration runs. If a candidate change turns out to be caught by the existing suite, say so in your final answer and try a different one. Finish with a short report: for each change, one paragraph on what it is, why the suite misses it, and the commands you ran with their outcomes.""")
