#!/bin/bash
# round_seed.sh <prop> <n>: confirm a sub-agent's change (tools/confirm_seed.sh), register it in the mutant corpus
# (expect: fail) and run it through the in-memory mutant path. Prints one line.
prop=$1; n=$2
cd /verif
if [ ! -d seeded/$prop-$n ]; then
  tools/confirm_seed.sh $prop $n
  r=$(tail -1 /tmp/seed-out/$prop/confirm-$n.log)
  if [ "$r" != "RESULT=confirmed" ]; then echo "$prop-$n $r"; exit 1; fi
fi
(
flock 9
python3 - <<PY
import json
p='selftest/mutants/$prop.json'
m=json.load(open(p))
i='$prop-seeded-$n'
if not any(x['id']==i for x in m):
    m.append({"id":i,"prop":"$prop","patch":"seeded/$prop-$n/patch.diff","expect":"fail","note":"seeded change from an independent sub-agent (see seeded/$prop-$n/meta.json)"})
    json.dump(m,open(p,'w'),indent=1)
PY
) 9>/tmp/round_seed.lock
bin/gov selftest --id $prop-seeded-$n 2>&1 | grep "$prop-seeded-$n" | head -3
