#!/bin/bash
# confirm_seed.sh <prop> <n>: confirms a sub-agent's seeded change in the scratch worktree /tmp/seed/<prop>:
# builds, full suite passes with it, demo fails with it and passes without it. Copies it to /verif/seeded/<prop>-<n>/.
prop=$1; n=$2
src=/tmp/seed-out/$prop/$n; wt=/tmp/seed/$prop; dst=/verif/seeded/$prop-$n
log=/tmp/seed-out/$prop/confirm-$n.log
exec >$log 2>&1
set -x
cd $wt || exit 2
git checkout -q -- . ; git clean -fdq
git apply --check $src/patch.diff || { echo RESULT=patch-does-not-apply; exit 1; }
pkgdir=$(python3 -c "import json;print(json.load(open('$src/meta.json')).get('demo_pkg_dir','mcp'))")
pkgdir=${pkgdir#./}; pkgdir=${pkgdir#/tmp/seed/$prop/}
democmd=$(python3 -c "import json;print(json.load(open('$src/meta.json')).get('demo_cmd',''))")
runpat=$(echo "$democmd" | grep -o "\-run [^ ]*" | head -1 | sed "s/-run //; s/'//g; s/\"//g")
[ -z "$runpat" ] && runpat=.
git apply $src/patch.diff
go build ./... || { echo RESULT=build-fails; git checkout -q -- .; exit 1; }
go test -count=1 -timeout 20m ./... > /tmp/seed-out/$prop/suite-$n.log 2>&1; suite=$?
grep -v "^ok\|no test files" /tmp/seed-out/$prop/suite-$n.log | head -20
cp $src/demo_test.go $wt/$pkgdir/zz_seed_demo_test.go
go test -count=1 -timeout 180s -run "$runpat" ./$pkgdir > /tmp/seed-out/$prop/demo-with-$n.log 2>&1; with=$?
git checkout -q -- .
go test -count=1 -timeout 180s -run "$runpat" ./$pkgdir > /tmp/seed-out/$prop/demo-without-$n.log 2>&1; without=$?
rm -f $wt/$pkgdir/zz_seed_demo_test.go
git status --short
echo "suite=$suite demo_with_change=$with demo_without_change=$without"
if [ $suite -eq 0 ] && [ $with -ne 0 ] && [ $without -eq 0 ]; then
  mkdir -p $dst; cp $src/patch.diff $src/demo_test.go $dst/
  python3 - <<PY
import json
m=json.load(open('$src/meta.json'))
m['confirmed_by_me']={'worktree':'$wt (detached scratch commit: /repo HEAD without the contract files)','build':'go build ./... ok','suite':'go test -count=1 ./... exit 0 with the change','demo_with_change':'exit $with (fails)','demo_without_change':'exit 0 (passes)','demo_run':'cp demo_test.go $pkgdir/zz_seed_demo_test.go; go test -count=1 -run "$runpat" ./$pkgdir'}
json.dump(m,open('$dst/meta.json','w'),indent=1)
PY
  echo RESULT=confirmed
else
  echo RESULT=not-confirmed
fi
