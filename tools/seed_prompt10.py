#!/usr/bin/env python3
"""Prompt for a tenth, different seeded change per property (the sub-agent sees the property text and short summaries of
the two changes earlier sub-agents produced - nothing about how /verif checks anything)."""
import json, sys, os
pid = sys.argv[1]
for l in open('/verif/properties.jsonl'):
    p = json.loads(l)
    if p['id'] == pid:
        break
prev = []
for n in (1, 2, 3, 4, 5, 6, 7, 8, 9):
    f = f'/verif/seeded/{pid}-{n}/meta.json'
    if os.path.exists(f):
        m = json.load(open(f))
        prev.append(f"  - ({', '.join(m.get('files_changed', []))}) " + m['what_breaks'][:220].replace('\n', ' '))
prevtxt = "\n".join(prev) if prev else "  (none)"
print(f"""You are testing a verification effort for the Go repository modelcontextprotocol/go-sdk (the official Go SDK for the Model Context Protocol). You have your own scratch git worktree of the repository at /tmp/seed/{pid} (a detached scratch checkout; `git diff` there gives your change). First make it clean: `cd /tmp/seed/{pid} && git checkout -- . && git clean -fdq`. Work ONLY inside /tmp/seed/{pid} and /tmp/seed-out/{pid}/10; never touch /repo or /verif and do not read anything under /verif or /repo.

Here is a semantic property the SDK is supposed to satisfy:

  Title: {p['title']}
  Statement: {p['statement']}
  It must hold: {p['quantifier']['text']}

Several property-breaking changes were already produced by others; do NOT repeat them or vary them slightly:
{prevtxt}

Your task: produce ONE more realistic change (bug) to the SDK's non-test Go source code that BREAKS this property in a DIFFERENT way (a different clause of the statement and/or a different function than the ones above), while (a) the repository still compiles (`go build ./...`), and (b) the ENTIRE existing test suite still passes unchanged (`go test -count=1 ./...` from the worktree root; about 30-60 s; do not edit, add to, or delete existing tests as part of the change). The change should be the kind of slip a maintainer could plausibly make in a refactor or "optimisation" (an off-by-one, a dropped check, a reordered pair of statements, a wrong variable, a lock released too early, a missed invalidation, a condition right for the common case only), NOT something ordinary use would expose at once. Prefer a change that needs something specific to manifest: a particular interleaving, a crash or fault at a particular point, a multi-step sequence of operations, an unusual input or boundary value, or two cooperating sites that each look fine alone. Changes in helper functions that the main path relies on (rather than in the most obvious function) are especially welcome.

Write into /tmp/seed-out/{pid}/10/ :
  - patch.diff : `git diff` of the change against the worktree HEAD (non-test source only; it must apply with `git apply` to a clean checkout),
  - demo_test.go : a demonstration test that FAILS with the change applied and PASSES without it; say in meta.json which package directory it must be copied into and give the exact `go test -run ... ./pkg` command,
  - meta.json : {{"property": "{pid}", "what_breaks": "...which clause is violated and how...", "needs_to_manifest": "...the specific input / sequence / interleaving needed...", "files_changed": [...], "demo_pkg_dir": "...", "demo_cmd": "...", "suite_passes_with_change": true}}.

Procedure you must follow and confirm yourself: apply the change in the worktree; run `go build ./...`; run the full `go test -count=1 ./...` and confirm everything passes (if an existing test fails the change is not acceptable: pick another); copy the demonstration into place and confirm it FAILS; revert the change (`git stash` or `git checkout -- .`) and confirm the demonstration PASSES on the original code; finally remove the demonstration file and leave the worktree clean. Environment notes: no network; run go commands with the default environment from inside the worktree (do not set GOFLAGS); use `-timeout 120s` on demonstration runs; other jobs share this machine, so a test run may take a few minutes - be patient and do not run more than one `go test` at a time. Finish with a short report: what the change is, why the suite misses it, and the commands you ran with their outcomes. Separately, under a heading SIDE REMARKS, list anything you noticed while reading the UNMODIFIED code that already looks like a violation of this property or a way for a peer-chosen input to crash or wedge the process (a nil dereference on a null JSON member, an index out of range, an unchecked type assertion, an overflow, a missing unlock or cleanup on an error path): file, function, the input that triggers it - even if you are not sure.""")
