#!/bin/bash
# Runs the quick check of every claimed property (4 at a time) and prints the summary lines; exit 1 if any is not green.
cd /verif
ids=$(python3 -c "import json;print(' '.join(c['property_id'] for c in json.load(open('MANIFEST.json'))['checks']))")
fail=0
printf "%s\n" $ids | xargs -P 4 -I{} sh -c './check {} > /tmp/allchecks.{}.log 2>&1; echo "$? $(tail -1 /tmp/allchecks.{}.log)"' | sort -k2 | while read rc line; do
  echo "$line (exit $rc)"
done
for i in $ids; do
  if ! tail -1 /tmp/allchecks.$i.log | grep -q ", 0 violations"; then fail=1; fi
  if grep -q "broken machinery" /tmp/allchecks.$i.log; then fail=1; fi
done
rm -f /tmp/allchecks.*.log
exit $fail
