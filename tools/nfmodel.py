#!/usr/bin/env python3
"""Debug helper: drop quantified assertions from an obligation script, ask z3 for a model and print the values of
the terms the goal mentions (counter-models found this way are only hints: dropped facts may exclude them)."""
import subprocess,re,sys
f=sys.argv[1]
lines=open(f).read().replace('(get-model)','').split('\n')
asserts=[i for i,l in enumerate(lines) if l.startswith('(assert')]
goal_i=asserts[-1]
fa=[i for i in asserts if '(forall' in lines[i] and i!=goal_i]
keep=[l for i,l in enumerate(lines) if i not in fa]
goal=lines[goal_i]
print(goal[:1500])
terms=sorted(set(re.findall(r'(?<![\w.!@])(?:[A-Za-z_][\w.$]*![0-9]+|p\.\w+)', goal)))
extra=sys.argv[2:]
keep.append('(get-value (%s))'%' '.join(terms+extra))
open('/tmp/nf.smt2','w').write('\n'.join(keep))
print(subprocess.run(['z3-new','-T:40','/tmp/nf.smt2'],capture_output=True,text=True).stdout[:3000])
