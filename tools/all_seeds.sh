#!/bin/bash
# Applies every seeded change in /verif/seeded to /repo in turn, runs the property's quick check and records whether it
# was reported (and by which obligations) in /verif/seeded/RESULTS.tsv. /repo must be clean; it is restored after each.
cd /verif
out=seeded/RESULTS.tsv
echo -e "seed\tresult\tobligations" > $out
for d in seeded/C*-*/; do
  id=$(basename $d); prop=${id%-*}
  p=$d/patch.diff; [ -f $d/patch.rebased.diff ] && p=$d/patch.rebased.diff
  log=$(tools/try_seed.sh $prop /verif/$p 2>&1)
  if echo "$log" | grep -q "patch does not apply\|REFUSING"; then
    echo -e "$id\tNOT-APPLICABLE(patch does not apply to the repaired tree)\t" >> $out; continue
  fi
  obls=$(echo "$log" | grep "^VIOLATION" | sed 's/.*replay=\/verif\/out\/[^/]*\///; s/\.replay\.json.*//' | tr '\n' ' ')
  if [ -n "$obls" ]; then echo -e "$id\tCAUGHT\t$obls" >> $out; else echo -e "$id\tMISSED\t$(echo "$log" | tail -1)" >> $out; fi
done
cat $out
