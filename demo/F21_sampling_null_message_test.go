// Copyright 2025 The Go MCP SDK Authors. All rights reserved.
// Use of this source code is governed by an MIT-style
// license that can be found in the LICENSE file.

package mcp

// Demonstration for finding F21 (C02): a sampling/createMessage request whose messages array has a null element
//   {"method":"sampling/createMessage","id":1,"params":{"maxTokens":1,"messages":[null]}}
// decodes to a nil *SamplingMessageV2; CreateMessageWithToolsParams.toBase (the down-conversion for a client that has
// only the basic CreateMessageHandler) dereferenced it in the handler goroutine: the client process crashed instead of
// answering the request with an error. Found by the no-panic obligation
// (*mcp.CreateMessageWithToolsParams).toBase#panic:nil-deref@mcp/protocol.go:754.
// Run as an in-package test:
//   cd /repo && go test -overlay <overlay mapping mcp/zz_f21_test.go to this file> -vet=off -run TestF21 ./mcp

import (
	"context"
	"encoding/json"
	"testing"
)

func TestF21NullSamplingMessageIsRejectedNotDereferenced(t *testing.T) {
	c := NewClient(&Implementation{Name: "c", Version: "v1"}, &ClientOptions{
		CreateMessageHandler: func(context.Context, *CreateMessageRequest) (*CreateMessageResult, error) {
			return &CreateMessageResult{Model: "m", Role: "assistant", Content: &TextContent{Text: "x"}}, nil
		},
	})
	wire := `{"maxTokens":1,"messages":[null]}`
	params, err := clientMethodInfos[methodCreateMessage].unmarshalParams(json.RawMessage(wire))
	if err != nil {
		return // rejected while decoding: fine
	}
	defer func() {
		if r := recover(); r != nil {
			t.Fatalf("sampling/createMessage with a null message reached Client.createMessage and panicked: %v", r)
		}
	}()
	if _, err := c.createMessage(context.Background(), &CreateMessageWithToolsRequest{Params: params.(*CreateMessageWithToolsParams)}); err == nil {
		t.Errorf("a null message was accepted, want an error")
	}
}
