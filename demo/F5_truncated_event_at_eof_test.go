// Demo for known finding F5 (C09): scanEvents dispatches the un-terminated event that precedes a clean end of
// input. A response body cut inside an event (after its id line, inside its data) is therefore surfaced: the cursor
// moves to the id of an event that never arrived completely and the truncated payload fails to decode, which fails
// the whole connection - instead of the event being discarded and the stream resumed from the previous id.
// Run: cp this file to /repo/mcp/zz_f5_demo_test.go && go test -run TestF5TruncatedEventAtEOF ./mcp
package mcp

import (
	"context"
	"net/http"
	"net/http/httptest"
	"testing"
	"time"
)

func TestF5TruncatedEventAtEOF(t *testing.T) {
	const tick = 10 * time.Millisecond
	defer func(delay int64) { reconnectInitialDelay.Store(delay) }(reconnectInitialDelay.Load())
	reconnectInitialDelay.Store(int64(tick))

	ctx := context.Background()
	fake := &fakeStreamableServer{
		t: t,
		responses: fakeResponses{
			{"POST", "", methodInitialize, ""}: {
				header: header{"Content-Type": "application/json", sessionIDHeader: "test-session"},
				body:   jsonBody(t, initResp),
			},
			{"POST", "test-session", notificationInitialized, ""}: {status: http.StatusAccepted, wantProtocolVersion: protocolVersion20251125},
			{"GET", "test-session", "", ""}:                       {status: http.StatusMethodNotAllowed},
			// the response stream: a complete priming event, then an event cut (cleanly) inside its data line
			{"POST", "test-session", methodCallTool, ""}: {
				header: header{"Content-Type": "text/event-stream"},
				body:   "id: s_0\ndata: \n\n" + "id: s_1\ndata: {\"jsonrpc\":\"2.0\",\"id\":2,\"resu",
			},
			// what a correct client does next: resume after the last COMPLETE event
			{"GET", "test-session", "", "s_0"}: {
				header: header{"Content-Type": "text/event-stream"},
				body:   "id: s_1\ndata: {\"jsonrpc\":\"2.0\",\"id\":2,\"result\":{\"content\":[{\"type\":\"text\",\"text\":\"real answer\"}]}}\n\n",
			},
			{"GET", "test-session", "", "s_1"}: {optional: true, header: header{"Content-Type": "text/event-stream"}, body: ""},
			{"DELETE", "test-session", "", ""}:  {optional: true},
		},
	}
	httpServer := httptest.NewServer(fake)
	defer httpServer.Close()

	transport := &StreamableClientTransport{Endpoint: httpServer.URL, MaxRetries: 3}
	client := NewClient(testImpl, nil)
	session, err := client.Connect(ctx, transport, &ClientSessionOptions{ProtocolVersion: protocolVersion20251125})
	if err != nil {
		t.Fatalf("Connect failed: %v", err)
	}
	defer session.Close()

	cctx, cancel := context.WithTimeout(ctx, 5*time.Second)
	defer cancel()
	res, err := session.CallTool(cctx, &CallToolParams{Name: "test"})
	if err != nil {
		t.Fatalf("VERIF-REPLAY-VIOLATION: a body cut inside an event was surfaced as a message instead of being discarded and resumed from s_0: %v", err)
	}
	if len(res.Content) != 1 {
		t.Fatalf("unexpected result %+v", res)
	}
}
