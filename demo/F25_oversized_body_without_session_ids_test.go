// Copyright 2025 The Go MCP SDK Authors. All rights reserved.
// Use of this source code is governed by an MIT-style
// license that can be found in the LICENSE file.

package mcp

// Demonstration for finding F25 (C12): StreamableHTTPOptions.MaxRequestBodyBytes documents "Requests that exceed this
// limit are rejected with 413 Request Entity Too Large", and the stateless path and the per-session path do that. A
// stateful handler whose server suppresses session ids (ServerOptions.GetSessionID returning "") serves each POST on
// an ephemeral connection, and that path answered an oversized body with 400 Bad Request. Side remark of a seeding
// sub-agent (round 8).
// Run as an in-package test:
//   cd /repo && go test -overlay <overlay mapping mcp/zz_f25_test.go to this file> -vet=off -run TestF25 ./mcp

import (
	"net/http"
	"net/http/httptest"
	"strings"
	"testing"
)

func TestF25OversizedBodyIs413OnEveryPath(t *testing.T) {
	s := NewServer(&Implementation{Name: "s", Version: "v1"}, &ServerOptions{GetSessionID: func() string { return "" }})
	h := NewStreamableHTTPHandler(func(*http.Request) *Server { return s }, &StreamableHTTPOptions{MaxRequestBodyBytes: 64})
	srv := httptest.NewServer(h)
	defer srv.Close()
	body := `{"jsonrpc":"2.0","id":1,"method":"ping","params":{"pad":"` + strings.Repeat("x", 200) + `"}}`
	req, _ := http.NewRequest("POST", srv.URL, strings.NewReader(body))
	req.Header.Set("Content-Type", "application/json")
	req.Header.Set("Accept", "application/json, text/event-stream")
	resp, err := http.DefaultClient.Do(req)
	if err != nil {
		t.Fatal(err)
	}
	defer resp.Body.Close()
	if resp.StatusCode != http.StatusRequestEntityTooLarge {
		t.Errorf("oversized body answered %d, want 413", resp.StatusCode)
	}
}
