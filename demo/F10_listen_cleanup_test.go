// Copyright 2025 The Go MCP SDK Authors. All rights reserved.
// Use of this source code is governed by an MIT-style
// license that can be found in the LICENSE file.

package mcp

// Demonstration for finding F10 (C18): when ANY subscriptions/listen request of a session ended, the server removed
// ALL list-changed subscriptions of that session - also those registered by another listen that is still open.
// With the SDK's own 2026-07-28 client (one background listen for the list-changed handlers, one more per
// Subscribe(uri)), Subscribe followed by Unsubscribe therefore silently ended tools/list_changed delivery: an entitled
// session (matching subscription still open) no longer received the notification. First seen as a side observation
// of a seeding sub-agent; the critical section was listed under trust-section (not verified) until then.
// Run as an in-package test:
//   cd /repo && go test -overlay <overlay mapping mcp/zz_f10_test.go to this file> -vet=off -run TestF10 ./mcp

import (
	"context"
	"testing"
	"time"
)

func TestF10ListenCleanupKeepsOtherListens(t *testing.T) {
	ctx := context.Background()
	server := NewServer(&Implementation{Name: "s", Version: "v1"}, &ServerOptions{
		SubscribeHandler:   func(context.Context, *SubscribeRequest) error { return nil },
		UnsubscribeHandler: func(context.Context, *UnsubscribeRequest) error { return nil },
	})
	AddTool(server, &Tool{Name: "t0"}, func(context.Context, *CallToolRequest, struct{}) (*CallToolResult, any, error) {
		return &CallToolResult{}, nil, nil
	})
	server.AddResource(&Resource{URI: "file:///r", Name: "r"}, func(context.Context, *ReadResourceRequest) (*ReadResourceResult, error) {
		return &ReadResourceResult{}, nil
	})
	changed := make(chan struct{}, 16)
	client := NewClient(&Implementation{Name: "c", Version: "v1"}, &ClientOptions{
		ToolListChangedHandler: func(context.Context, *ToolListChangedRequest) { changed <- struct{}{} },
	})
	ct, st := NewInMemoryTransports()
	ss, err := server.Connect(ctx, st, nil)
	if err != nil {
		t.Fatal(err)
	}
	defer ss.Close()
	cs, err := client.Connect(ctx, ct, nil)
	if err != nil {
		t.Fatal(err)
	}
	defer cs.Close()
	if !cs.usesNewProtocol() {
		t.Skip("needs the 2026-07-28 protocol")
	}
	waitChange := func(what string) {
		t.Helper()
		select {
		case <-changed:
		case <-time.After(3 * time.Second):
			t.Fatalf("no tools/list_changed notification %s", what)
		}
	}
	// The background listen works.
	time.Sleep(100 * time.Millisecond)
	AddTool(server, &Tool{Name: "t1"}, func(context.Context, *CallToolRequest, struct{}) (*CallToolResult, any, error) {
		return &CallToolResult{}, nil, nil
	})
	waitChange("before any resource subscription (sanity)")
	// A second listen (resource subscription) comes and goes.
	if err := cs.Subscribe(ctx, &SubscribeParams{URI: "file:///r"}); err != nil {
		t.Fatal(err)
	}
	if err := cs.Unsubscribe(ctx, &UnsubscribeParams{URI: "file:///r"}); err != nil {
		t.Fatal(err)
	}
	time.Sleep(300 * time.Millisecond) // let the server see the cancellation and run the listen's cleanup
	for len(changed) > 0 {
		<-changed
	}
	AddTool(server, &Tool{Name: "t2"}, func(context.Context, *CallToolRequest, struct{}) (*CallToolResult, any, error) {
		return &CallToolResult{}, nil, nil
	})
	waitChange("after an unrelated listen of the same session ended: its cleanup removed the subscription of the listen that is still open")
}
