// Copyright 2025 The Go MCP SDK Authors. All rights reserved.
// Use of this source code is governed by an MIT-style
// license that can be found in the LICENSE file.

package mcp

// Demonstration for finding F30 (C12, converse clause: what the SDK's own client produces satisfies the server's
// checks): under 2026-07-28 every message must carry the per-request _meta. ClientSession.NotifyProgress was the one
// sending method that did not add it, so against a stateless streamable server the notification was answered HTTP 400
// ("missing or invalid _meta field"), which the streamable client treats as a broken connection: one
// cs.NotifyProgress killed the whole session ("client is closing: sending "notifications/progress": Bad Request").
// Side remark of a seeding sub-agent (round 8).
// Run as an in-package test:
//   cd /repo && go test -overlay <overlay mapping mcp/zz_f30_test.go to this file> -vet=off -run TestF30 ./mcp

import (
	"context"
	"net/http"
	"net/http/httptest"
	"testing"
)

func TestF30AClientProgressNotificationIsAcceptedByTheSDKServer(t *testing.T) {
	s := NewServer(&Implementation{Name: "s", Version: "v1"}, nil)
	h := NewStreamableHTTPHandler(func(*http.Request) *Server { return s }, &StreamableHTTPOptions{Stateless: true})
	srv := httptest.NewServer(h)
	defer srv.Close()
	c := NewClient(&Implementation{Name: "c", Version: "v1"}, nil)
	cs, err := c.Connect(context.Background(), &StreamableClientTransport{Endpoint: srv.URL}, nil)
	if err != nil {
		t.Fatal(err)
	}
	defer cs.Close()
	if err := cs.NotifyProgress(context.Background(), &ProgressNotificationParams{ProgressToken: "x", Progress: 1}); err != nil {
		t.Errorf("the SDK server refused the SDK client's progress notification: %v", err)
	}
	if _, err := cs.ListTools(context.Background(), nil); err != nil {
		t.Errorf("the session is unusable after one progress notification: %v", err)
	}
}
