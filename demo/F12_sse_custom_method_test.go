// Copyright 2025 The Go MCP SDK Authors. All rights reserved.
// Use of this source code is governed by an MIT-style
// license that can be found in the LICENSE file.

package mcp

// Demonstration for finding F12 (C02): the HTTP+SSE server transport pre-validated incoming requests against the
// static table of standard methods instead of the connected server's own table, so a call of a custom method
// registered with AddReceivingCustomMethod was answered "400 Bad Request" (as if the method were unknown) and never
// got a JSON-RPC response - on this transport only; the same call works over the in-memory and streamable transports.
// First mentioned as a side remark by a seeding sub-agent; reproduced here.
// Run as an in-package test:
//   cd /repo && go test -overlay <overlay mapping mcp/zz_f12_test.go to this file> -vet=off -run TestF12 ./mcp

import (
	"context"
	"net/http"
	"net/http/httptest"
	"testing"
)

type f12Params struct {
	ParamsBase
	Q string `json:"q"`
}

type f12Result struct {
	ResultBase
	A string `json:"a"`
}

func TestF12CustomMethodOverSSE(t *testing.T) {
	ctx := context.Background()
	server := NewServer(&Implementation{Name: "s", Version: "v1"}, nil)
	if err := AddReceivingCustomMethod(server, "acme/echo", func(ctx context.Context, ss *ServerSession, p *f12Params) (*f12Result, error) {
		return &f12Result{A: p.Q}, nil
	}); err != nil {
		t.Fatal(err)
	}
	newClient := func() *Client {
		c := NewClient(&Implementation{Name: "c", Version: "v1"}, nil)
		if err := AddSendingCustomMethod[*f12Params, *f12Result](c, "acme/echo"); err != nil {
			t.Fatal(err)
		}
		return c
	}
	// Control: the in-memory transport.
	ct, st := NewInMemoryTransports()
	ss, err := server.Connect(ctx, st, nil)
	if err != nil {
		t.Fatal(err)
	}
	defer ss.Close()
	cs, err := newClient().Connect(ctx, ct, nil)
	if err != nil {
		t.Fatal(err)
	}
	res, err := CallCustomMethod[*f12Params, *f12Result](ctx, cs, "acme/echo", &f12Params{Q: "hi"})
	if err != nil || res.A != "hi" {
		t.Fatalf("in-memory control: %v %v", res, err)
	}
	cs.Close()

	// The same call over HTTP+SSE.
	httpServer := httptest.NewServer(NewSSEHandler(func(*http.Request) *Server { return server }, nil))
	defer httpServer.Close()
	cs2, err := newClient().Connect(ctx, &SSEClientTransport{Endpoint: httpServer.URL}, nil)
	if err != nil {
		t.Fatal(err)
	}
	defer cs2.Close()
	res, err = CallCustomMethod[*f12Params, *f12Result](ctx, cs2, "acme/echo", &f12Params{Q: "hi"})
	if err != nil {
		t.Fatalf("custom method over SSE: %v", err)
	}
	if res.A != "hi" {
		t.Fatalf("custom method over SSE: got %q", res.A)
	}
}
