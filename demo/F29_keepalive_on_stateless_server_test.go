// Copyright 2025 The Go MCP SDK Authors. All rights reserved.
// Use of this source code is governed by an MIT-style
// license that can be found in the LICENSE file.

package mcp

// Demonstration for finding F29 (C13): a server with ServerOptions.KeepAlive served by a stateless streamable HTTP
// handler started keep-alive on every per-request session. A stateless connection rejects every server-to-client
// request ("stateless servers cannot make requests"), so each ping was counted as a miss although the peer was never
// asked, and after threshold x interval the session was closed under the running handler: every request that took
// longer failed with "request terminated without response". C13: "a peer that answers ... is never closed by
// keep-alive". Side remark of a seeding sub-agent (round 8).
// Run as an in-package test:
//   cd /repo && go test -overlay <overlay mapping mcp/zz_f29_test.go to this file> -vet=off -run TestF29 ./mcp

import (
	"context"
	"net/http"
	"net/http/httptest"
	"testing"
	"time"
)

type f29Args struct{}

func TestF29KeepAliveDoesNotCloseAStatelessRequestSession(t *testing.T) {
	s := NewServer(&Implementation{Name: "s", Version: "v1"}, &ServerOptions{KeepAlive: 50 * time.Millisecond})
	AddTool(s, &Tool{Name: "slow"}, func(ctx context.Context, _ *CallToolRequest, _ f29Args) (*CallToolResult, any, error) {
		select {
		case <-ctx.Done():
			return nil, nil, ctx.Err()
		case <-time.After(600 * time.Millisecond):
		}
		return &CallToolResult{}, nil, nil
	})
	h := NewStreamableHTTPHandler(func(*http.Request) *Server { return s }, &StreamableHTTPOptions{Stateless: true})
	srv := httptest.NewServer(h)
	defer srv.Close()
	c := NewClient(&Implementation{Name: "c", Version: "v1"}, nil)
	cs, err := c.Connect(context.Background(), &StreamableClientTransport{Endpoint: srv.URL}, nil)
	if err != nil {
		t.Fatal(err)
	}
	defer cs.Close()
	res, err := cs.CallTool(context.Background(), &CallToolParams{Name: "slow"})
	if err != nil {
		t.Fatalf("a request longer than the keep-alive interval failed on a stateless server: %v", err)
	}
	if res.IsError {
		t.Fatalf("a request longer than the keep-alive interval was cancelled on a stateless server: %+v", res.Content)
	}
}
