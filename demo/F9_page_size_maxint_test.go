// Copyright 2025 The Go MCP SDK Authors. All rights reserved.
// Use of this source code is governed by an MIT-style
// license that can be found in the LICENSE file.

package mcp

// Demonstration for finding F9 (C17): a server configured with ServerOptions.PageSize = math.MaxInt (the natural
// way to say "never paginate") computed pageSize+1, which wraps to math.MinInt: every list answer then carried a
// spurious next cursor, following it asked for the item past the end, and an empty registry made the server index
// features[-1] and panic. Found by the obligations mcp.paginateList#panic:index and
// #ensures:a-next-cursor-only-when-one-more-item-was-seen once the contract stopped assuming pageSize < 2^62
// (all NewServer guarantees is pageSize >= 1). Run as an in-package test:
//   cd /repo && go test -overlay <overlay mapping mcp/zz_f9_test.go to this file> -vet=off -run TestF9 ./mcp

import (
	"math"
	"testing"
)

func TestF9PageSizeMaxIntFirstPage(t *testing.T) {
	fs := newFeatureSet(func(t *serverTool) string { return t.tool.Name })
	fs.add(&serverTool{tool: &Tool{Name: "a"}}, &serverTool{tool: &Tool{Name: "b"}})
	res, err := paginateList(fs, math.MaxInt, &ListToolsParams{}, &ListToolsResult{}, func(res *ListToolsResult, tools []*serverTool) {
		for _, st := range tools {
			res.Tools = append(res.Tools, st.tool)
		}
	})
	if err != nil {
		t.Fatal(err)
	}
	if len(res.Tools) != 2 {
		t.Errorf("got %d tools, want 2", len(res.Tools))
	}
	if res.NextCursor != "" {
		t.Errorf("page holds every item but carries next cursor %q", res.NextCursor)
	}
}

func TestF9PageSizeMaxIntEmptyRegistry(t *testing.T) {
	fs := newFeatureSet(func(t *serverTool) string { return t.tool.Name })
	defer func() {
		if r := recover(); r != nil {
			t.Fatalf("paginateList panicked on an empty registry: %v", r)
		}
	}()
	res, err := paginateList(fs, math.MaxInt, &ListToolsParams{}, &ListToolsResult{}, func(res *ListToolsResult, tools []*serverTool) {})
	if err != nil {
		t.Fatal(err)
	}
	if res.NextCursor != "" {
		t.Errorf("empty page carries next cursor %q", res.NextCursor)
	}
}
