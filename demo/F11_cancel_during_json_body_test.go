// Copyright 2025 The Go MCP SDK Authors. All rights reserved.
// Use of this source code is governed by an MIT-style
// license that can be found in the LICENSE file.

package mcp

// Demonstration for finding F11 (C04): with a server in application/json reply mode, cancelling a call while the
// client is still reading the reply body made the streamable client fail the whole connection ("failed to read
// body: context canceled"): the session was no longer usable for further calls, although only one call had been
// abandoned. (In text/event-stream mode the same cancellation is handled gracefully.) First seen as a side remark
// of a seeding sub-agent, then reproduced here and put under contract (handleJSON).
// Run as an in-package test:
//   cd /repo && go test -overlay <overlay mapping mcp/zz_f11_test.go to this file> -vet=off -run TestF11 ./mcp

import (
	"context"
	"net/http"
	"net/http/httptest"
	"sync"
	"testing"
	"time"
)

// slowBodyWriter sends the headers at once and holds the body back until released.
type slowBodyWriter struct {
	http.ResponseWriter
	headersOut chan struct{}
	release    chan struct{}
	once       sync.Once
}

func (w *slowBodyWriter) Write(p []byte) (int, error) {
	w.once.Do(func() {
		w.ResponseWriter.WriteHeader(http.StatusOK)
		if f, ok := w.ResponseWriter.(http.Flusher); ok {
			f.Flush()
		}
		close(w.headersOut)
		<-w.release
	})
	return w.ResponseWriter.Write(p)
}

func TestF11CancelDuringJSONBodyKeepsSession(t *testing.T) {
	server := NewServer(&Implementation{Name: "s", Version: "v1"}, nil)
	AddTool(server, &Tool{Name: "slow"}, func(context.Context, *CallToolRequest, struct{}) (*CallToolResult, any, error) {
		return &CallToolResult{Content: []Content{&TextContent{Text: "late"}}}, nil, nil
	})
	AddTool(server, &Tool{Name: "quick"}, func(context.Context, *CallToolRequest, struct{}) (*CallToolResult, any, error) {
		return &CallToolResult{Content: []Content{&TextContent{Text: "ok"}}}, nil, nil
	})
	handler := NewStreamableHTTPHandler(func(*http.Request) *Server { return server }, &StreamableHTTPOptions{JSONResponse: true})
	headersOut := make(chan struct{})
	release := make(chan struct{})
	var releaseOnce sync.Once
	releaseBody := func() { releaseOnce.Do(func() { close(release) }) }
	defer releaseBody()
	var mu sync.Mutex
	slowNext := false
	httpServer := httptest.NewServer(http.HandlerFunc(func(w http.ResponseWriter, r *http.Request) {
		mu.Lock()
		slow := slowNext && r.Method == http.MethodPost
		if slow {
			slowNext = false
		}
		mu.Unlock()
		if slow {
			w = &slowBodyWriter{ResponseWriter: w, headersOut: headersOut, release: release}
		}
		handler.ServeHTTP(w, r)
	}))
	defer httpServer.Close()

	ctx := context.Background()
	client := NewClient(&Implementation{Name: "c", Version: "v1"}, nil)
	cs, err := client.Connect(ctx, &StreamableClientTransport{Endpoint: httpServer.URL, DisableStandaloneSSE: true}, &ClientSessionOptions{ProtocolVersion: protocolVersion20251125})
	if err != nil {
		t.Fatal(err)
	}
	defer cs.Close()
	if _, err := cs.CallTool(ctx, &CallToolParams{Name: "quick"}); err != nil {
		t.Fatalf("sanity call: %v", err)
	}

	mu.Lock()
	slowNext = true
	mu.Unlock()
	callCtx, cancel := context.WithCancel(ctx)
	errc := make(chan error, 1)
	go func() {
		_, err := cs.CallTool(callCtx, &CallToolParams{Name: "slow"})
		errc <- err
	}()
	select {
	case <-headersOut:
	case <-time.After(5 * time.Second):
		t.Fatal("the slow reply never started")
	}
	time.Sleep(50 * time.Millisecond) // the client is now reading the body
	cancel()
	select {
	case err := <-errc:
		if err == nil {
			t.Fatal("cancelled call returned no error")
		}
	case <-time.After(5 * time.Second):
		t.Fatal("cancelled call did not return")
	}
	time.Sleep(100 * time.Millisecond)
	releaseBody()

	// C04: "the session stays usable for further calls".
	res, err := cs.CallTool(ctx, &CallToolParams{Name: "quick"})
	if err != nil {
		t.Fatalf("session unusable after one call was cancelled while its JSON reply was being read: %v", err)
	}
	_ = res
}
