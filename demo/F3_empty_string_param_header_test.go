// Demo for finding F3 (C12): the SDK client mirrors the empty string argument "" as an empty Mcp-Param-* header;
// the SDK server reads an empty header as "missing" and rejects the legitimate call (-32020 header mismatch).
// Run: cp this file to /repo/mcp/zz_f3_demo_test.go && go test -run TestF3EmptyStringParamHeader ./mcp
package mcp

import (
	"net/http"
	"testing"

	"github.com/modelcontextprotocol/go-sdk/jsonrpc"
)

func TestF3EmptyStringParamHeader(t *testing.T) {
	tool := &Tool{
		Name: "test",
		InputSchema: map[string]any{
			"type": "object",
			"properties": map[string]any{
				"region": map[string]any{"type": "string", "x-mcp-header": "Region"},
			},
		},
	}
	for _, arg := range []string{"us-west1", ""} {
		params := mustMarshal(&CallToolParams{Name: "test", Arguments: map[string]any{"region": arg}})
		// what the SDK client puts on the wire
		header := http.Header{}
		for k, v := range generateParamHeaders(tool, params) {
			header.Set(k, v)
		}
		// what the SDK server makes of it
		msg := &jsonrpc.Request{Method: "tools/call", Params: params}
		if err := validateParamHeaders(header, msg, tool); err != nil {
			t.Fatalf("VERIF-REPLAY-VIOLATION: client and server disagree about a legitimate call with region=%q: %v", arg, err)
		}
	}
}
