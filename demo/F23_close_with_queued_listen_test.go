// Copyright 2025 The Go MCP SDK Authors. All rights reserved.
// Use of this source code is governed by an MIT-style
// license that can be found in the LICENSE file.

// Demonstration for finding F23 (C05): ServerSession.Close cancels the subscriptions/listen handlers whose ids are in
// ss.listenIDs and then waits for the connection to drain. A listen request that jsonrpc2 had already accepted but
// that was still queued behind a synchronously handled notification registered its id only afterwards - in a list
// nobody reads again - and parked on its context: Close hung forever. Reproducer written by a seeding sub-agent
// (side remark, round 8), confirmed on the unrepaired code ("Close hung"), passes with the fix: commit.
// Run as an in-package test:
//   cd /repo && go test -overlay <overlay mapping mcp/zz_f23_test.go to this file> -vet=off -run TestC05SideQueuedListen ./mcp

package mcp

import (
	"context"
	"encoding/json"
	"testing"
	"time"

	"github.com/modelcontextprotocol/go-sdk/internal/jsonrpc2"
	"github.com/modelcontextprotocol/go-sdk/jsonrpc"
)

type c05SideArgs struct{}

func TestC05SideQueuedListen(t *testing.T) {
	ctx := context.Background()
	entered := make(chan struct{}, 1)
	release := make(chan struct{})
	s := NewServer(&Implementation{Name: "s", Version: "0"}, &ServerOptions{
		ProgressNotificationHandler: func(context.Context, *ProgressNotificationServerRequest) {
			entered <- struct{}{}
			<-release
		},
	})
	AddTool(s, &Tool{Name: "t"}, func(context.Context, *CallToolRequest, c05SideArgs) (*CallToolResult, any, error) {
		return &CallToolResult{}, nil, nil
	})
	ct, st := NewInMemoryTransports()
	ss, err := s.Connect(ctx, st, nil)
	if err != nil {
		t.Fatal(err)
	}
	raw, _ := ct.Connect(ctx)
	go func() {
		for {
			if _, err := raw.Read(ctx); err != nil {
				return
			}
		}
	}()
	meta := `"_meta": {"io.modelcontextprotocol/protocolVersion": "2026-07-28","io.modelcontextprotocol/clientCapabilities": {}}`
	w := func(id jsonrpc.ID, m, p string) {
		if err := raw.Write(ctx, &jsonrpc.Request{ID: id, Method: m, Params: json.RawMessage(p)}); err != nil {
			t.Fatal(err)
		}
	}
	w(jsonrpc.ID{}, notificationProgress, `{`+meta+`,"progressToken":"x","progress":1}`)
	select {
	case <-entered:
	case <-time.After(5 * time.Second):
		t.Fatal("progress handler not entered")
	}
	w(jsonrpc2.Int64ID(1), methodSubscriptionsListen, `{`+meta+`,"notifications":{"toolsListChanged":true}}`)
	time.Sleep(100 * time.Millisecond)
	closed := make(chan error, 1)
	go func() { closed <- ss.Close() }()
	time.Sleep(100 * time.Millisecond)
	close(release)
	select {
	case <-closed:
	case <-time.After(5 * time.Second):
		t.Fatal("Close hung: listen queued behind a notification handler at Close time is never cancelled")
	}
}
