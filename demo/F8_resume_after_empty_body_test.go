// Demo for finding F8 (C09): a resumed SSE body that is cut before any new event arrives makes the client forget
// the resume cursor it already has: the pending call is failed with a synthetic "request terminated without
// response" instead of being resumed (the retry budget is untouched).
// Run: cp this file to /repo/mcp/zz_f8_demo_test.go && go test -run TestF8ResumeAfterEmptyBody ./mcp
package mcp

import (
	"context"
	"net/http"
	"net/http/httptest"
	"sync/atomic"
	"testing"
	"time"

	"github.com/modelcontextprotocol/go-sdk/jsonrpc"
)

func TestF8ResumeAfterEmptyBody(t *testing.T) {
	const tick = 10 * time.Millisecond
	defer func(delay int64) { reconnectInitialDelay.Store(delay) }(reconnectInitialDelay.Load())
	reconnectInitialDelay.Store(int64(tick))

	ctx := context.Background()
	var resumes atomic.Int32
	fake := &fakeStreamableServer{
		t: t,
		responses: fakeResponses{
			{"POST", "", methodInitialize, ""}: {
				header: header{"Content-Type": "application/json", sessionIDHeader: "test-session"},
				body:   jsonBody(t, initResp),
			},
			{"POST", "test-session", notificationInitialized, ""}: {status: http.StatusAccepted, wantProtocolVersion: protocolVersion20251125},
			{"GET", "test-session", "", ""}:                       {status: http.StatusMethodNotAllowed},
			// the call's own response stream: a priming event, then the connection is cut
			{"POST", "test-session", methodCallTool, ""}: {
				header: header{"Content-Type": "text/event-stream"},
				body:   "id: s_0\ndata: \n\n",
			},
			// resumption from s_0: first time the body ends with no event at all (e.g. an idle proxy timeout),
			// second time the real response arrives
			{"GET", "test-session", "", "s_0"}: {
				header: header{"Content-Type": "text/event-stream"},
				responseFunc: func(r *jsonrpc.Request) (string, int) {
					if resumes.Add(1) == 1 {
						return "", http.StatusOK
					}
					return "id: s_1\ndata: {\"jsonrpc\":\"2.0\",\"id\":2,\"result\":{\"content\":[{\"type\":\"text\",\"text\":\"real answer\"}]}}\n\n", http.StatusOK
				},
			},
			{"DELETE", "test-session", "", ""}: {optional: true},
		},
	}
	httpServer := httptest.NewServer(fake)
	defer httpServer.Close()

	transport := &StreamableClientTransport{Endpoint: httpServer.URL, MaxRetries: 5}
	client := NewClient(testImpl, nil)
	session, err := client.Connect(ctx, transport, &ClientSessionOptions{ProtocolVersion: protocolVersion20251125})
	if err != nil {
		t.Fatalf("Connect failed: %v", err)
	}
	defer session.Close()

	res, err := session.CallTool(ctx, &CallToolParams{Name: "test"})
	if err != nil {
		t.Fatalf("VERIF-REPLAY-VIOLATION: the call failed although the stream was resumable (cursor s_0, retry budget 5, %d resume attempts): %v", resumes.Load(), err)
	}
	if len(res.Content) != 1 {
		t.Fatalf("unexpected result %+v", res)
	}
}
