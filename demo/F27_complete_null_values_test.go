// Copyright 2025 The Go MCP SDK Authors. All rights reserved.
// Use of this source code is governed by an MIT-style
// license that can be found in the LICENSE file.

package mcp

// Demonstration for finding F27 (C19): "values" is a required array of a completion/complete result, but a
// completion handler that found nothing (a nil slice, or &CompleteResult{}) made the server send
// "completion":{"values":null}. Same class as F26; side remark of a seeding sub-agent (round 8); the clause written
// from the property fails on the unrepaired code ((*mcp.Server).complete#ensures:values-array-is-never-null).
// Run as an in-package test:
//   cd /repo && go test -overlay <overlay mapping mcp/zz_f27_test.go to this file> -vet=off -run TestF27 ./mcp

import (
	"context"
	"encoding/json"
	"strings"
	"testing"
)

func TestF27CompleteNeverSendsNullValues(t *testing.T) {
	s := NewServer(&Implementation{Name: "s", Version: "v1"}, &ServerOptions{
		CompletionHandler: func(context.Context, *CompleteRequest) (*CompleteResult, error) {
			var matches []string // nothing matched
			return &CompleteResult{Completion: CompletionResultDetails{Values: matches}}, nil
		},
	})
	res, err := s.complete(context.Background(), &CompleteRequest{Params: &CompleteParams{
		Ref:      &CompleteReference{Type: "ref/prompt", Name: "p"},
		Argument: CompleteParamsArgument{Name: "a", Value: "zz"},
	}})
	if err != nil {
		t.Fatal(err)
	}
	data, err := json.Marshal(res)
	if err != nil {
		t.Fatal(err)
	}
	if strings.Contains(string(data), `"values":null`) {
		t.Errorf("completion/complete result sent with a null values array: %s", data)
	}
}
