// Copyright 2025 The Go MCP SDK Authors. All rights reserved.
// Use of this source code is governed by an MIT-style
// license that can be found in the LICENSE file.

package mcp

// Demonstration for finding F17 (C02): elicitation/create was registered with missingParamsOK, but Client.elicit
// dereferences its params: a peer that sends {"id":5,"method":"elicitation/create"} (no params) to a client with an
// ElicitationHandler crashed the client process with a nil-pointer panic in the handler goroutine, instead of getting
// an invalid-request answer. Confirmed first by a seeding sub-agent (side remark); reproduced here at the level of the
// method table (the end-to-end form of the failure is a process crash, which a test cannot observe and survive).
// Run as an in-package test:
//   cd /repo && go test -overlay <overlay mapping mcp/zz_f17_test.go to this file> -vet=off -run TestF17 ./mcp

import (
	"context"
	"errors"
	"testing"

	"github.com/modelcontextprotocol/go-sdk/internal/jsonrpc2"
)

func TestF17ElicitWithoutParamsIsRejectedNotDereferenced(t *testing.T) {
	info := clientMethodInfos[methodElicit]
	params, err := info.unmarshalParams(nil)
	if err != nil {
		if !errors.Is(err, jsonrpc2.ErrInvalidRequest) {
			t.Errorf("missing params rejected with %v, want an invalid-request error", err)
		}
		return // rejected before any handler: fine
	}
	// The params were let through: then the handler must cope with them.
	c := NewClient(&Implementation{Name: "c", Version: "v1"}, &ClientOptions{
		ElicitationHandler: func(context.Context, *ElicitRequest) (*ElicitResult, error) { return &ElicitResult{Action: "accept"}, nil },
	})
	defer func() {
		if r := recover(); r != nil {
			t.Fatalf("elicitation/create without params reached Client.elicit and panicked: %v", r)
		}
	}()
	p, _ := params.(*ElicitParams)
	_, _ = c.elicit(context.Background(), &ElicitRequest{Params: p})
}
