// Copyright 2025 The Go MCP SDK Authors. All rights reserved.
// Use of this source code is governed by an MIT-style
// license that can be found in the LICENSE file.

package mcp

// Demonstration for finding F26 (C19): "messages" is a required array of a prompts/get result, but a prompt handler
// that returns a result without messages (&GetPromptResult{Description: ...}) made the server send "messages":null -
// tools/call (content) and the list methods already replace a nil array by an empty one, prompts/get did not. Side
// remark of a seeding sub-agent (round 8); the clause "a successful result never carries a null messages array",
// written from the property, fails on the unrepaired code
// ((*mcp.Server).getPrompt#ensures:messages-array-is-never-null).
// Run as an in-package test:
//   cd /repo && go test -overlay <overlay mapping mcp/zz_f26_test.go to this file> -vet=off -run TestF26 ./mcp

import (
	"context"
	"encoding/json"
	"strings"
	"testing"
)

func TestF26GetPromptNeverSendsNullMessages(t *testing.T) {
	s := NewServer(&Implementation{Name: "s", Version: "v1"}, nil)
	s.AddPrompt(&Prompt{Name: "p"}, func(context.Context, *GetPromptRequest) (*GetPromptResult, error) {
		return &GetPromptResult{Description: "nothing to say"}, nil
	})
	ct, st := NewInMemoryTransports()
	ss, err := s.Connect(context.Background(), st, nil)
	if err != nil {
		t.Fatal(err)
	}
	defer ss.Close()
	_ = ct
	res, err := s.getPrompt(context.Background(), &GetPromptRequest{Session: ss, Params: &GetPromptParams{Name: "p"}})
	if err != nil {
		t.Fatal(err)
	}
	data, err := json.Marshal(res)
	if err != nil {
		t.Fatal(err)
	}
	if strings.Contains(string(data), `"messages":null`) {
		t.Errorf("prompts/get result sent with a null messages array: %s", data)
	}
}
