// Copyright 2025 The Go MCP SDK Authors. All rights reserved.
// Use of this source code is governed by an MIT-style
// license that can be found in the LICENSE file.

package mcp

// Demonstration for finding F24 (C04): with the defaults on both sides (a stateless streamable HTTP server, a client
// that negotiates 2026-07-28), cancelling any call killed the whole ClientSession. The notifications/cancelled that
// call() sends is built outside the sending middleware, so it carried no per-request _meta; the server rejects a
// 2026-07-28 message without it (HTTP 400, a JSON-RPC error object without an id, which the client cannot classify as
// a per-message rejection), and streamableClientConn.Write failed the connection: every later call returned
// "connection closed: ... client is closing: sending "notifications/cancelled": Bad Request". C04: "the session stays
// usable for further calls". Confirmed violation reported by a seeding sub-agent (side remark, round 8).
// Run as an in-package test:
//   cd /repo && go test -overlay <overlay mapping mcp/zz_f24_test.go to this file> -vet=off -run TestF24 ./mcp

import (
	"context"
	"net/http"
	"net/http/httptest"
	"testing"
	"time"
)

type f24Args struct{}

func TestF24SessionStaysUsableAfterACancelledCallOnStatelessHTTP(t *testing.T) {
	s := NewServer(&Implementation{Name: "s", Version: "v1"}, nil)
	started := make(chan struct{}, 1)
	AddTool(s, &Tool{Name: "slow"}, func(ctx context.Context, _ *CallToolRequest, _ f24Args) (*CallToolResult, any, error) {
		started <- struct{}{}
		select {
		case <-ctx.Done():
		case <-time.After(2 * time.Second):
		}
		return &CallToolResult{}, nil, nil
	})
	AddTool(s, &Tool{Name: "fast"}, func(ctx context.Context, _ *CallToolRequest, _ f24Args) (*CallToolResult, any, error) {
		return &CallToolResult{}, nil, nil
	})
	h := NewStreamableHTTPHandler(func(*http.Request) *Server { return s }, &StreamableHTTPOptions{Stateless: true})
	srv := httptest.NewServer(h)
	defer srv.Close()
	c := NewClient(&Implementation{Name: "c", Version: "v1"}, nil)
	cs, err := c.Connect(context.Background(), &StreamableClientTransport{Endpoint: srv.URL}, nil)
	if err != nil {
		t.Fatal(err)
	}
	defer cs.Close()
	ctx, cancel := context.WithCancel(context.Background())
	go func() { <-started; cancel() }()
	if _, err := cs.CallTool(ctx, &CallToolParams{Name: "slow"}); err == nil {
		t.Fatal("the cancelled call returned no error")
	}
	time.Sleep(300 * time.Millisecond) // let the (asynchronous) cancellation notice be answered
	if _, err := cs.CallTool(context.Background(), &CallToolParams{Name: "fast"}); err != nil {
		t.Fatalf("the session is unusable after one cancelled call: %v", err)
	}
}
