// Copyright 2025 The Go MCP SDK Authors. All rights reserved.
// Use of this source code is governed by an MIT-style
// license that can be found in the LICENSE file.

package mcp

// Demonstration for finding F14 (C09): calculateReconnectDelay converted initialDelay * 1.5^(attempt-1) to a
// time.Duration before capping it; from attempt 58 on (1s * 1.5^57 > MaxInt64 ns) the conversion overflows, the
// "capped" value is negative and rand.N panics. connectSSE calls it with attempt+1 after every transport error, so a
// client configured with MaxRetries >= 58 that meets that many consecutive transport errors crashes the process from
// the handleSSE goroutine instead of failing the pending call with an error. First mentioned as a side remark by a
// seeding sub-agent; reproduced here.
// Run as an in-package test:
//   cd /repo && go test -overlay <overlay mapping mcp/zz_f14_test.go to this file> -vet=off -run TestF14 ./mcp

import "testing"

func TestF14ReconnectDelayForLargeAttemptNumbers(t *testing.T) {
	for _, attempt := range []int{1, 10, 57, 58, 59, 100, 1000, 1 << 40} {
		func() {
			defer func() {
				if r := recover(); r != nil {
					t.Errorf("calculateReconnectDelay(%d) panicked: %v", attempt, r)
				}
			}()
			d := calculateReconnectDelay(attempt)
			if d < 0 || d > 2*reconnectMaxDelay {
				t.Errorf("calculateReconnectDelay(%d) = %v, want a delay in [0, %v]", attempt, d, 2*reconnectMaxDelay)
			}
		}()
	}
}
