// Copyright 2025 The Go MCP SDK Authors. All rights reserved.
// Use of this source code is governed by an MIT-style
// license that can be found in the LICENSE file.

package mcp

// Demonstration for finding F16 (C19): a TextContent with empty text nested in a ToolResultContent was sent without its
// required "text" member ({"type":"text"}): ToolResultContent.MarshalJSON re-decoded every nested block into the
// omitempty wire struct and encoded that again. At the top level the same block is sent as {"type":"text","text":""}.
// First mentioned as a side remark by a seeding sub-agent; reproduced here.
// Run as an in-package test:
//   cd /repo && go test -overlay <overlay mapping mcp/zz_f16_test.go to this file> -vet=off -run TestF16 ./mcp

import (
	"encoding/json"
	"testing"
)

func TestF16NestedEmptyTextKeepsItsTextMember(t *testing.T) {
	trc := &ToolResultContent{ToolUseID: "x", Content: []Content{&TextContent{Text: ""}}}
	b, err := json.Marshal(trc)
	if err != nil {
		t.Fatal(err)
	}
	var got struct {
		Content []map[string]any `json:"content"`
	}
	if err := json.Unmarshal(b, &got); err != nil {
		t.Fatal(err)
	}
	if len(got.Content) != 1 {
		t.Fatalf("got %s", b)
	}
	if v, ok := got.Content[0]["text"]; !ok || v != "" {
		t.Errorf("nested text block sent as %s: required member \"text\" is missing", b)
	}
}
