// Copyright 2025 The Go MCP SDK Authors. All rights reserved.
// Use of this source code is governed by an MIT-style
// license that can be found in the LICENSE file.

package mcp

// Demonstration for finding F33 (C19, "Decoding is case-sensitive"): the decoders of the multi-round-trip maps
// (InputRequestMap, InputResponseMap and the helper that picks the concrete response type) used encoding/json, whose
// member matching is case-insensitive, while every other decoder of the SDK uses the case-sensitive fork. A result
// whose inputRequests entry spells its members "METHOD"/"PARAMS", or an inputResponses entry spelled "ACTION", was
// accepted as if it had the members the protocol defines. Side remark of two seeding sub-agents (rounds 9 and 10);
// found by the clause "peer data is decoded case-sensitively" once it was put on these three functions.
// Run as an in-package test:
//   cd /repo && go test -overlay <overlay mapping mcp/zz_f33_test.go to this file> -vet=off -run TestF33 ./mcp

import (
	"encoding/json"
	"testing"
)

func TestF33InputMapsAreDecodedCaseSensitively(t *testing.T) {
	// canonical spelling: accepted
	var ok InputRequestMap
	if err := json.Unmarshal([]byte(`{"k":{"method":"roots/list","params":{}}}`), &ok); err != nil || ok["k"] == nil {
		t.Fatalf("canonical inputRequests entry: %v %v", ok, err)
	}
	// wrong letter case: these are not the members "method"/"params"
	var m InputRequestMap
	if err := json.Unmarshal([]byte(`{"k":{"METHOD":"roots/list","PARAMS":{}}}`), &m); err == nil {
		t.Errorf(`inputRequests entry spelled "METHOD"/"PARAMS" was accepted as %T`, m["k"])
	}
	var r InputResponseMap
	if err := json.Unmarshal([]byte(`{"k":{"ACTION":"accept"}}`), &r); err == nil {
		t.Errorf(`inputResponses entry spelled "ACTION" was accepted as %T`, r["k"])
	}
	var r2 InputResponseMap
	if err := json.Unmarshal([]byte(`{"k":{"action":"accept"}}`), &r2); err != nil {
		t.Errorf("canonical inputResponses entry rejected: %v", err)
	} else if er, isElicit := r2["k"].(*ElicitResult); !isElicit || er.Action != "accept" {
		t.Errorf("canonical inputResponses entry decoded as %#v", r2["k"])
	}
}
