// Copyright 2025 The Go MCP SDK Authors. All rights reserved.
// Use of this source code is governed by an MIT-style
// license that can be found in the LICENSE file.

package mcp

// Demonstration for known finding F13 (C12): the SDK client mirrors x-mcp-header arguments into Mcp-Param-* headers
// only for tools it finds in its own tools/list cache (ClientSession.lookupTool). When the cache does not hold the
// tool - the client has not listed tools yet, or a list_changed notification has just emptied the cache - a
// schema-valid tools/call goes out without the parameter headers and the SDK server rejects it with -32020: client
// and server disagree about a legitimate call. Recorded, not repaired (the repair needs the client to fetch the tool
// list on demand - an extra round trip inside CallTool, not a small change). The existing test
// TestStreamableParamHeadersClientSetsHeaders lists tools first ("needed for param headers").
// Run as an in-package test:
//   cd /repo && go test -overlay <overlay mapping mcp/zz_f13_test.go to this file> -vet=off -run TestF13 ./mcp

import (
	"context"
	"net/http"
	"net/http/httptest"
	"testing"
)

func TestF13CallToolWithoutListedTool(t *testing.T) {
	server := NewServer(&Implementation{Name: "s", Version: "v1"}, nil)
	ran := 0
	server.AddTool(&Tool{
		Name: "execute_sql",
		InputSchema: map[string]any{
			"type": "object",
			"properties": map[string]any{
				"region": map[string]any{"type": "string", "x-mcp-header": "Region"},
				"query":  map[string]any{"type": "string"},
			},
		},
	}, func(ctx context.Context, req *CallToolRequest) (*CallToolResult, error) {
		ran++
		return &CallToolResult{Content: []Content{&TextContent{Text: "ok"}}}, nil
	})
	handler := NewStreamableHTTPHandler(func(*http.Request) *Server { return server }, &StreamableHTTPOptions{Stateless: true})
	httpServer := httptest.NewServer(handler)
	defer httpServer.Close()

	ctx := context.Background()
	client := NewClient(&Implementation{Name: "c", Version: "v1"}, nil)
	cs, err := client.Connect(ctx, &StreamableClientTransport{Endpoint: httpServer.URL}, &ClientSessionOptions{ProtocolVersion: minVersionForStandardHeaders})
	if err != nil {
		t.Fatal(err)
	}
	defer cs.Close()
	// No ListTools before the call: the arguments are valid under the tool's schema all the same.
	_, err = cs.CallTool(ctx, &CallToolParams{Name: "execute_sql", Arguments: map[string]any{"region": "us-west1", "query": "SELECT 1"}})
	if err != nil {
		t.Fatalf("a schema-valid call was rejected (tool handler ran %d times): %v", ran, err)
	}
}
