// Copyright 2025 The Go MCP SDK Authors. All rights reserved.
// Use of this source code is governed by an MIT-style
// license that can be found in the LICENSE file.

package mcp

// Demonstration for finding F15 (C16): a tools/call whose "arguments" member is the JSON value null, for a typed tool
// whose input schema declares a default, made applySchema hand a nil map to the schema library's ApplyDefaults,
// which panics ("assignment to entry in nil map"): a peer-chosen input crashes the server instead of being answered
// with a tool-level error or served with the defaults. (Decoding null into the pre-made map sets the map to nil.)
// First mentioned as a side remark by a seeding sub-agent; reproduced here.
// Run as an in-package test:
//   cd /repo && go test -overlay <overlay mapping mcp/zz_f15_test.go to this file> -vet=off -run TestF15 ./mcp

import (
	"encoding/json"
	"testing"

	"github.com/google/jsonschema-go/jsonschema"
)

func TestF15NullArgumentsWithDefaults(t *testing.T) {
	schema := &jsonschema.Schema{
		Type: "object",
		Properties: map[string]*jsonschema.Schema{
			"mode": {Type: "string", Default: json.RawMessage(`"fast"`)},
		},
	}
	resolved, err := schema.Resolve(&jsonschema.ResolveOptions{ValidateDefaults: true})
	if err != nil {
		t.Fatal(err)
	}
	for _, data := range []string{`null`, ` null `, `{}`, ``} {
		func() {
			defer func() {
				if r := recover(); r != nil {
					t.Errorf("applySchema(%q) panicked: %v", data, r)
				}
			}()
			out, err := applySchema(json.RawMessage(data), resolved, false)
			if err != nil {
				return // a tool-level error is an acceptable answer
			}
			var got map[string]any
			if err := json.Unmarshal(out, &got); err != nil || got["mode"] != "fast" {
				t.Errorf("applySchema(%q) = %s, want the default applied", data, out)
			}
		}()
	}
}
