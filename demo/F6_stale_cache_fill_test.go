// Demo for finding F6 (C18): a list result computed before a change but delivered after the client has handled the
// corresponding list_changed notification is put into the client's TTL cache; a list issued after the notification
// was handled is then answered from that stale entry.
// Run: cp this file to /repo/mcp/zz_f6_demo_test.go && go test -run TestF6StaleCacheFill ./mcp
package mcp

import (
	"context"
	"net/http"
	"net/http/httptest"
	"sync/atomic"
	"testing"
	"time"
)

func TestF6StaleCacheFill(t *testing.T) {
	server := NewServer(&Implementation{Name: "testServer", Version: "v1.0.0"}, nil)
	handler := func(ctx context.Context, req *CallToolRequest) (*CallToolResult, error) {
		return &CallToolResult{Content: []Content{&TextContent{Text: "ok"}}}, nil
	}
	server.AddTool(&Tool{Name: "a", InputSchema: map[string]any{"type": "object"}}, handler)

	handled := make(chan struct{}, 4)
	var lists atomic.Int32
	server.AddReceivingMiddleware(func(next MethodHandler) MethodHandler {
		return func(ctx context.Context, method string, req Request) (Result, error) {
			res, err := next(ctx, method, req)
			if err == nil && method == methodListTools {
				if r, ok := res.(*ListToolsResult); ok {
					r.TTLMs = 60_000
				}
				if lists.Add(1) == 1 {
					// a slow list: the feature set changes, and the client hears about it, before the answer
					// computed above leaves the server
					server.AddTool(&Tool{Name: "b", InputSchema: map[string]any{"type": "object"}}, handler)
					select {
					case <-handled:
					case <-time.After(5 * time.Second):
						t.Error("the client never handled the list_changed notification")
					}
				}
			}
			return res, err
		}
	})

	h := NewStreamableHTTPHandler(func(req *http.Request) *Server { return server }, &StreamableHTTPOptions{Stateless: true})
	defer h.closeAll()
	httpServer := httptest.NewServer(h)
	defer httpServer.Close()

	client := NewClient(&Implementation{Name: "testClient", Version: "v1.0.0"}, &ClientOptions{
		ToolListChangedHandler: func(context.Context, *ToolListChangedRequest) { handled <- struct{}{} },
	})
	ctx, cancel := context.WithTimeout(context.Background(), 20*time.Second)
	defer cancel()
	session, err := client.Connect(ctx, &StreamableClientTransport{Endpoint: httpServer.URL}, &ClientSessionOptions{ProtocolVersion: protocolVersion20260728})
	if err != nil {
		t.Fatal(err)
	}
	defer session.Close()

	first, err := session.ListTools(ctx, &ListToolsParams{})
	if err != nil {
		t.Fatal(err)
	}
	t.Logf("first list (slow, computed before the change): %d tools", len(first.Tools))
	// The client has handled the notification (the middleware waited for it). A list issued now must not be older
	// than the change.
	second, err := session.ListTools(ctx, &ListToolsParams{})
	if err != nil {
		t.Fatal(err)
	}
	if len(second.Tools) != 2 {
		t.Fatalf("VERIF-REPLAY-VIOLATION: a list issued after the list_changed notification was handled has %d tool(s), the server has 2: answered from a cache entry filled with a result computed before the change", len(second.Tools))
	}
}
