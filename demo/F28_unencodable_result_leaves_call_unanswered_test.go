// Copyright 2025 The Go MCP SDK Authors. All rights reserved.
// Use of this source code is governed by an MIT-style
// license that can be found in the LICENSE file.

package mcp

// Demonstration for finding F28 (C02): when the result of a handler cannot be encoded (here: a tool result whose
// structured content holds a NaN), jsonrpc2's processResult only reported an internal error and wrote nothing: the
// request - well formed, with an id - never received a response, and the caller waited until its own deadline.
// C02: "each well-formed JSON-RPC request that carries an id receives exactly one response". Side remark of a seeding
// sub-agent (round 8). The contract of processResult had been written from the code ("answered unless unencodable");
// with the clause taken from the property ("calls are answered exactly once") the obligation
// (*internal/jsonrpc2.Connection).processResult#ensures:calls-are-answered-exactly-once fails on the unrepaired code.
// Run as an in-package test:
//   cd /repo && go test -overlay <overlay mapping mcp/zz_f28_test.go to this file> -vet=off -run TestF28 ./mcp

import (
	"context"
	"errors"
	"math"
	"testing"
	"time"
)

func TestF28AnUnencodableResultStillAnswersTheCall(t *testing.T) {
	s := NewServer(&Implementation{Name: "s", Version: "v1"}, nil)
	s.AddTool(&Tool{Name: "nan", InputSchema: map[string]any{"type": "object"}}, func(context.Context, *CallToolRequest) (*CallToolResult, error) {
		return &CallToolResult{Content: []Content{&TextContent{Text: "x"}}, StructuredContent: map[string]any{"v": math.NaN()}}, nil
	})
	ct, st := NewInMemoryTransports()
	ss, err := s.Connect(context.Background(), st, nil)
	if err != nil {
		t.Fatal(err)
	}
	defer ss.Close()
	c := NewClient(&Implementation{Name: "c", Version: "v1"}, nil)
	cs, err := c.Connect(context.Background(), ct, nil)
	if err != nil {
		t.Fatal(err)
	}
	defer cs.Close()
	ctx, cancel := context.WithTimeout(context.Background(), 2*time.Second)
	defer cancel()
	_, err = cs.CallTool(ctx, &CallToolParams{Name: "nan"})
	if err == nil {
		t.Fatal("a result that cannot be encoded was reported as a success")
	}
	if errors.Is(err, context.DeadlineExceeded) {
		t.Fatalf("the call was never answered (the caller ran into its own deadline): %v", err)
	}
	t.Logf("answered with: %v", err)
}
