// Copyright 2025 The Go MCP SDK Authors. All rights reserved.
// Use of this source code is governed by an MIT-style
// license that can be found in the LICENSE file.

package mcp

// Demonstration for finding F32 (C20, "for any session, stream and index the in-memory event store returns exactly the
// payloads appended to that stream after that index ... or an events-purged error if any of them has been evicted"):
// for an index below -1 on a stream from which nothing was ever evicted, MemoryEventStore.After reported
// ErrEventsPurged instead of the payloads (every payload lies after such an index, and none is gone). The interface
// comment says the error is for data after the index that was dropped. Found when the contract clause of After was
// rewritten from the property statement (obligation (*mcp.MemoryEventStore).After$1#ensures:exact-count failed); the
// streamable transport never passes an index below -1, the store is a public type.
// Run as an in-package test:
//   cd /repo && go test -overlay <overlay mapping mcp/zz_f32_test.go to this file> -vet=off -run TestF32 ./mcp

import (
	"context"
	"errors"
	"math"
	"testing"
)

func TestF32AfterBelowMinusOneOnAnIntactStream(t *testing.T) {
	ctx := context.Background()
	s := NewMemoryEventStore(nil)
	s.Append(ctx, "S", "1", []byte("a"))
	s.Append(ctx, "S", "1", []byte("b"))
	for _, index := range []int{-1, -2, -100, math.MinInt} {
		var got []string
		for d, err := range s.After(ctx, "S", "1", index) {
			if err != nil {
				t.Errorf("After(%d) on a stream that lost nothing: %v (purged: %v)", index, err, errors.Is(err, ErrEventsPurged))
				break
			}
			got = append(got, string(d))
		}
		if len(got) != 2 || got[0] != "a" || got[1] != "b" {
			t.Errorf("After(%d) = %q, want [a b]", index, got)
		}
	}
	// Once something was evicted, the same indexes are answered with the purge error.
	s.SetMaxBytes(1)
	s.Append(ctx, "S", "1", []byte("c")) // evicts a and b
	for _, index := range []int{-1, -2, math.MinInt} {
		var gotErr error
		for _, err := range s.After(ctx, "S", "1", index) {
			gotErr = err
			break
		}
		if !errors.Is(gotErr, ErrEventsPurged) {
			t.Errorf("After(%d) after an eviction: error %v, want ErrEventsPurged", index, gotErr)
		}
	}
}
