// Copyright 2025 The Go MCP SDK Authors. All rights reserved.
// Use of this source code is governed by an MIT-style
// license that can be found in the LICENSE file.

package mcp

// Demonstration for finding F18 (C19): decoding a result whose "inputRequests" object has a null entry
// ({"inputRequests":{"a":null}}) dereferenced a nil pointer in InputRequestMap.UnmarshalJSON: a server-chosen payload
// crashed the decoding client instead of producing an error ("decoding never panics on arbitrary bytes"). Side remark of
// a seeding sub-agent; the function was then put under a no-panic contract, whose obligation
// (*mcp.InputRequestMap).UnmarshalJSON#panic:nil-deref@mcp/protocol.go:106 fails on the unrepaired code.
// Run as an in-package test:
//   cd /repo && go test -overlay <overlay mapping mcp/zz_f18_test.go to this file> -vet=off -run TestF18 ./mcp

import (
	"encoding/json"
	"testing"
)

func TestF18NullInputRequestEntry(t *testing.T) {
	for _, data := range []string{`{"a":null}`, `{"a":{"method":"roots/list"},"b":null}`, `null`, `{}`} {
		func() {
			defer func() {
				if r := recover(); r != nil {
					t.Errorf("decoding %s panicked: %v", data, r)
				}
			}()
			var m InputRequestMap
			_ = json.Unmarshal([]byte(data), &m)
		}()
	}
}
