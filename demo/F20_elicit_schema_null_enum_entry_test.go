// Copyright 2025 The Go MCP SDK Authors. All rights reserved.
// Use of this source code is governed by an MIT-style
// license that can be found in the LICENSE file.

package mcp

// Demonstration for finding F20 (C02): the requested schema of an elicitation/create request is validated in the
// client's handler goroutine; validateTitledEnumEntry dereferenced its entry unconditionally, and a null entry in a
// property's oneOf (or in items.anyOf of an array property) decodes to a nil *jsonschema.Schema. A server sending
//   {"method":"elicitation/create","id":1,"params":{"message":"m","requestedSchema":
//     {"type":"object","properties":{"a":{"type":"string","oneOf":[null]}}}}}
// crashed the client process (nil-pointer panic) instead of getting an invalid-params answer. Found by the no-panic
// obligation mcp.validateTitledEnumEntry#panic:nil-deref@mcp/client.go:1090.
// Run as an in-package test:
//   cd /repo && go test -overlay <overlay mapping mcp/zz_f20_test.go to this file> -vet=off -run TestF20 ./mcp

import (
	"context"
	"encoding/json"
	"testing"
)

func TestF20NullEnumEntryInElicitSchemaIsRejectedNotDereferenced(t *testing.T) {
	c := NewClient(&Implementation{Name: "c", Version: "v1"}, &ClientOptions{
		ElicitationHandler: func(context.Context, *ElicitRequest) (*ElicitResult, error) {
			return &ElicitResult{Action: "decline"}, nil
		},
	})
	for _, schema := range []string{
		`{"type":"object","properties":{"a":{"type":"string","oneOf":[null]}}}`,
		`{"type":"object","properties":{"a":{"type":"array","items":{"anyOf":[null]}}}}`,
	} {
		wire := `{"message":"m","requestedSchema":` + schema + `}`
		params, err := clientMethodInfos[methodElicit].unmarshalParams(json.RawMessage(wire))
		if err != nil {
			continue // rejected while decoding: fine
		}
		func() {
			defer func() {
				if r := recover(); r != nil {
					t.Errorf("%s: elicitation/create reached Client.elicit and panicked: %v", schema, r)
				}
			}()
			_, err := c.elicit(context.Background(), &ElicitRequest{Params: params.(*ElicitParams)})
			if err == nil {
				t.Errorf("%s: accepted, want an invalid-params error", schema)
			}
		}()
	}
}
