// Copyright 2025 The Go MCP SDK Authors. All rights reserved.
// Use of this source code is governed by an MIT-style
// license that can be found in the LICENSE file.

package mcp

// Demonstration for finding F19 (C02): notifications/elicitation/complete is registered with missingParamsOK, but
// Client.callElicitationCompleteHandler reads req.Params.ElicitationID unconditionally: a server that sends
// {"jsonrpc":"2.0","method":"notifications/elicitation/complete"} (no params, or "params":null) crashed the client
// process with a nil-pointer panic in the handler goroutine. Found by the no-panic obligation
// (*mcp.Client).callElicitationCompleteHandler#panic:nil-deref@mcp/client.go:1527. Reproduced at the level of the
// method table and the handler (the end-to-end form is a process crash, which a test cannot observe and survive).
// Run as an in-package test:
//   cd /repo && go test -overlay <overlay mapping mcp/zz_f19_test.go to this file> -vet=off -run TestF19 ./mcp

import (
	"context"
	"errors"
	"testing"

	"github.com/modelcontextprotocol/go-sdk/internal/jsonrpc2"
)

func TestF19ElicitationCompleteWithoutParamsDoesNotCrash(t *testing.T) {
	info := clientMethodInfos[notificationElicitationComplete]
	params, err := info.unmarshalParams(nil)
	if err != nil {
		if !errors.Is(err, jsonrpc2.ErrInvalidRequest) {
			t.Errorf("missing params rejected with %v, want an invalid-request error", err)
		}
		return // rejected before any handler: fine
	}
	ct, st := NewInMemoryTransports()
	s := NewServer(&Implementation{Name: "s", Version: "v1"}, nil)
	ss, err := s.Connect(context.Background(), st, nil)
	if err != nil {
		t.Fatal(err)
	}
	defer ss.Close()
	c := NewClient(&Implementation{Name: "c", Version: "v1"}, nil)
	cs, err := c.Connect(context.Background(), ct, nil)
	if err != nil {
		t.Fatal(err)
	}
	defer cs.Close()
	defer func() {
		if r := recover(); r != nil {
			t.Fatalf("notifications/elicitation/complete without params reached the handler and panicked: %v", r)
		}
	}()
	req := info.newRequest(cs, params, nil)
	_, _ = info.handleMethod(context.Background(), notificationElicitationComplete, req)
}
