// Copyright 2025 The Go MCP SDK Authors. All rights reserved.
// Use of this source code is governed by an MIT-style
// license that can be found in the LICENSE file.

package oauthex

// Demonstration for finding F22 (C15): GetProtectedResourceMetadata checked the scheme of authorization_servers only.
// A protected-resource metadata document whose jwks_uri, resource_documentation, resource_policy_uri or
// resource_tos_uri is a javascript:/data:/vbscript: URL was accepted and handed to the caller - although
// authorization-server metadata and registration responses are rejected for exactly that (validateAuthServerMetaURLs,
// validateClientRegistrationURLs; see #526). Side remark of a seeding sub-agent; the contract of
// GetProtectedResourceMetadata had been written from the code (authorization servers only) instead of from the property
// ("no URL field has a script-capable scheme"); with the clause taken from the property the obligation
// oauthex.GetProtectedResourceMetadata#ensures:every-url-field-has-a-safe-scheme fails on the unrepaired code.
// Run as an in-package test:
//   cd /repo && go test -overlay <overlay mapping oauthex/zz_f22_test.go to this file> -vet=off -run TestF22 ./oauthex

import (
	"context"
	"encoding/json"
	"net/http"
	"net/http/httptest"
	"testing"
)

func TestF22ProtectedResourceMetadataURLFieldsAreSchemeChecked(t *testing.T) {
	for _, field := range []string{"jwks_uri", "resource_documentation", "resource_policy_uri", "resource_tos_uri"} {
		t.Run(field, func(t *testing.T) {
			server := httptest.NewTLSServer(http.HandlerFunc(func(w http.ResponseWriter, r *http.Request) {
				w.Header().Set("Content-Type", "application/json")
				json.NewEncoder(w).Encode(map[string]any{
					"resource":              "https://" + r.Host,
					"authorization_servers": []string{"https://as.example.com"},
					field:                   "javascript:alert(document.cookie)",
				})
			}))
			defer server.Close()
			prm, err := GetProtectedResourceMetadata(context.Background(), server.URL+"/.well-known/oauth-protected-resource", server.URL, server.Client())
			if err == nil {
				t.Errorf("metadata with %s = javascript:... was accepted: %+v", field, prm)
			}
		})
	}
}
