// Copyright 2025 The Go MCP SDK Authors. All rights reserved.
// Use of this source code is governed by an MIT-style
// license that can be found in the LICENSE file.

package mcp

// Demonstration for finding F31 (C18, "resource-updated notifications reach exactly the sessions currently subscribed
// to that URI", for all interleavings of subscribing and unsubscribing): with the SDK's own 2026-07-28 client,
// Subscribe(u); Unsubscribe(u); Subscribe(u) leaves the session WITHOUT a subscription although its second listen is
// open. Unsubscribe cancels the first subscriptions/listen asynchronously; the second Subscribe opens a new listen at
// once; the server records the new listen's id under (u, session) - and then the first listen's deferred cleanup
// removes the entry for (u, session) whatever listen it belongs to (the list-changed tables compare the request id
// since the F10 repair; the per-URI table did not). Side remark of a seeding sub-agent (it lost the notification in 18
// of 20 runs); made deterministic here by two listens of one session driven directly.
// Run as an in-package test:
//   cd /repo && go test -overlay <overlay mapping mcp/zz_f31_test.go to this file> -vet=off -run TestF31 ./mcp

import (
	"context"
	"testing"
	"time"

	"github.com/modelcontextprotocol/go-sdk/jsonrpc"
)

func TestF31ListenCleanupKeepsANewerListensResourceSubscription(t *testing.T) {
	server := NewServer(&Implementation{Name: "s", Version: "v1"}, &ServerOptions{
		SubscribeHandler:   func(context.Context, *SubscribeRequest) error { return nil },
		UnsubscribeHandler: func(context.Context, *UnsubscribeRequest) error { return nil },
	})
	const uri = "file:///r"
	server.AddResource(&Resource{URI: uri, Name: "r"}, func(context.Context, *ReadResourceRequest) (*ReadResourceResult, error) {
		return &ReadResourceResult{}, nil
	})
	ct, st := NewInMemoryTransports()
	ss, err := server.Connect(context.Background(), st, nil)
	if err != nil {
		t.Fatal(err)
	}
	// a peer that reads (and ignores) whatever the server sends
	peer, err := ct.Connect(context.Background())
	if err != nil {
		t.Fatal(err)
	}
	defer peer.Close()
	go func() {
		for {
			if _, err := peer.Read(context.Background()); err != nil {
				return
			}
		}
	}()
	listen := func(id int64) (cancel context.CancelFunc, done chan struct{}) {
		idv, _ := jsonrpc.MakeID(float64(id))
		ctx, cancel := context.WithCancel(context.WithValue(context.Background(), idContextKey{}, idv))
		done = make(chan struct{})
		go func() {
			defer close(done)
			server.subscriptionsListen(ctx, &SubscriptionsListenRequest{Session: ss, Params: &SubscriptionsListenParams{
				Notifications: &NotificationSubscriptions{ResourceSubscriptions: []string{uri}},
			}})
		}()
		return cancel, done
	}
	subscribed := func() bool {
		server.mu.Lock()
		defer server.mu.Unlock()
		_, ok := server.resourceSubscriptions[uri][ss]
		return ok
	}
	waitFor := func(what string, cond func() bool) {
		t.Helper()
		for i := 0; i < 300; i++ {
			if cond() {
				return
			}
			time.Sleep(10 * time.Millisecond)
		}
		t.Fatalf("timed out waiting for %s", what)
	}
	// First Subscribe: listen 1 is open.
	cancel1, done1 := listen(1)
	waitFor("listen 1 to record its subscription", subscribed)
	// Unsubscribe followed at once by a new Subscribe: listen 2 is recorded before listen 1 has been torn down.
	cancel2, done2 := listen(2)
	waitFor("listen 2 to record its subscription", func() bool {
		server.mu.Lock()
		defer server.mu.Unlock()
		id2, _ := jsonrpc.MakeID(float64(2))
		return server.resourceSubscriptions[uri][ss] == id2
	})
	cancel1()
	<-done1
	// Listen 2 is still open: the session is currently subscribed.
	if !subscribed() {
		t.Errorf("the cleanup of the listen that ended removed the resource subscription of the listen that is still open: ResourceUpdated(%q) no longer reaches the session", uri)
	}
	cancel2()
	<-done2
	if subscribed() {
		t.Errorf("the subscription outlived its last listen")
	}
}
